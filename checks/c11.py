"""C11 — automorphism groups and orbits are exact; pruning loses no distinct result.

Monitors: Automorphism.n_automorphisms / orbits vs an independent back-tracking enumeration of the
label-preserving automorphism group (per component for disconnected graphs, component swaps excluded
as documented); AutoEst orbits must be a coarsening of the true orbit partition computed with the same
attribute selection; an always-on contract on deduplicate_matches_with_anchor (output = sub-list of the
input, original order, object identity) that also fires for every call SynReactor makes; and a
differential re-execution of SynReactor with the pruning replaced by the identity (pruned result set must
equal the result set obtained by gluing every raw match)."""
from __future__ import annotations

import networkx as nx

from oracles import brute as B
from workloads import graphs as WG

RULE = (
    "one case = one labelled graph (automorphism count, orbits, WL estimate under two attribute selections), one "
    "match list through the de-duplication contract, or one (template, substrate, direction, strategy) reactor run "
    "executed with and without pruning; distinct = distinct class / graph / run; non-trivial = graph with a non-identity "
    "automorphism or >=4 nodes; reactor run with >=2 raw matches"
)
REQUIRED = ["large_group_checked", "automorphism_count_checked", "orbits_checked", "nontrivial_groups", "disconnected_graphs",
            "autoest_coarsening_checked", "autoest_strictly_coarser", "dedup_contract_evals", "dedup_dropped_something",
            "pruning_differential_runs", "pruning_removed_matches", "pruning_symmetry_reference_checked", "graphs_with_omitted_default_attributes", "anchor_read_first_checked", "empty_key_list_matters"]
ASSUMPTIONS = [
    "Automorphism defaults: missing element '*', charge 0, order 1.0 (the class's documented defaults)",
    "AutoEst compared against the automorphism group of the whole graph (component swaps included: WL colours are invariant under them)",
    "pruning differential: result sets are compared after Standardize.fit, same strategy and flags; runs where either side raises are counted, not judged",
]
SHARDS = {"quick": 8, "thorough": 16}
BUDGET_S = {"quick": 80, "thorough": 800}

def install():
    from checks import reactor_common as RC
    RC.install()


def flush(ctx):
    from checks import reactor_common as RC
    ctx.count("dedup_contract_evals", RC.STATS["dedup_calls"])
    ctx.count("dedup_dropped_something", RC.STATS["dedup_dropped"])
    RC.STATS["dedup_calls"] = RC.STATS["dedup_dropped"] = 0
    for f in RC.FAIL[:3]:
        ctx.violation("dedup-not-sublist", f, f"deduplicate_matches_with_anchor returned something that is not an order-preserving sub-list of its input ({f['n_in']} -> {f['n_out']})")
    del RC.FAIL[:]


def auto_ok():
    def node_ok(a, b):
        return a.get("element", "*") == b.get("element", "*") and a.get("charge", 0) == b.get("charge", 0)

    def edge_ok(a, b):
        return a.get("order", 1.0) == b.get("order", 1.0)

    return node_ok, edge_ok


def check_graph(ctx, G, tag, key, with_est=True):
    from synkit.Graph.Matcher.automorphism import Automorphism
    from synkit.Graph.Matcher.auto_est import AutoEst

    rng = ctx.rng
    wit = {"graph": WG.describe(G)}
    g0 = WG.gdigest(G)
    node_ok, edge_ok = auto_ok()
    comps = [G.subgraph(c).copy() for c in nx.connected_components(G)]
    want_n = 1
    want_orb = set()
    for c in comps:
        au = B.automorphisms(c, node_ok, edge_ok)
        want_n *= len(au)
        want_orb |= B.orbits_from(list(c.nodes), au)
    if G.number_of_nodes() <= 7 and ctx.rng.random() < 0.3:
        # an explicitly empty key list means "no labels of that kind", not "the default labels"
        for nk_, ek_, nm_ in (([], None, "node_attr_keys=[]"), (None, [], "edge_attr_keys=[]")):
            node_ok2 = (lambda a, b: True) if nk_ == [] else node_ok
            edge_ok2 = (lambda a, b: True) if ek_ == [] else edge_ok
            w2 = 1
            for c in comps:
                w2 *= len(B.automorphisms(c, node_ok2, edge_ok2))
            kw2 = {}
            if nk_ is not None:
                kw2["node_attr_keys"] = nk_
            if ek_ is not None:
                kw2["edge_attr_keys"] = ek_
            ctx.count("empty_key_list_checked")
            if w2 != want_n:
                ctx.count("empty_key_list_matters")
            got2 = Automorphism(G, **kw2).n_automorphisms
            if got2 != w2:
                ctx.violation("automorphism-count", {**wit, "option": nm_}, f"Automorphism({nm_}).n_automorphisms={got2}; ignoring those labels the graph has {w2}")
    if len(comps) > 1:
        # a fresh analysis object whose anchor is the first thing read
        anc0 = Automorphism(G).anchor_component
        ctx.count("anchor_read_first_checked")
        if anc0 is None or frozenset(anc0) not in {frozenset(c.nodes) for c in comps} or len(anc0) != max(len(c) for c in comps):
            ctx.violation("anchor", wit, f"anchor_component read first on a fresh object is {anc0}: not a largest component")
    A = Automorphism(G)
    ctx.count("automorphism_count_checked")
    if len(comps) > 1:
        ctx.count("disconnected_graphs")
    if want_n > 1:
        ctx.count("nontrivial_groups")
    if A.n_automorphisms != want_n:
        ctx.violation("automorphism-count", wit, f"n_automorphisms={A.n_automorphisms}, the graph has {want_n} label-preserving automorphisms ({len(comps)} component(s))")
    got_orb = {frozenset(o) for o in A.orbits}
    ctx.count("orbits_checked")
    if got_orb != want_orb or len(got_orb) != len(A.orbits):
        ctx.violation("orbits", wit, f"orbits {sorted(map(sorted, got_orb))} != exact {sorted(map(sorted, want_orb))}")
    # non-default construction: without an anchor the analysis is still per component (swaps stay excluded)
    A2 = Automorphism(G, anchor_largest_component=False)
    ctx.count("no_anchor_variant_checked")
    if A2.n_automorphisms != want_n or {frozenset(o) for o in A2.orbits} != want_orb:
        ctx.violation("automorphism-no-anchor", wit, f"anchor_largest_component=False: {A2.n_automorphisms} automorphisms / orbits {sorted(map(sorted, A2.orbits))}, "
                      f"per-component group has {want_n} / {sorted(map(sorted, want_orb))}")
    if len(comps) > 1:
        anc = A.anchor_component
        if anc is None or frozenset(anc) not in {frozenset(c.nodes) for c in comps} or len(anc) != max(len(c) for c in comps):
            ctx.violation("anchor", wit, f"anchor component {anc} is not a largest component")
    # ---- WL estimate is a coarsening of the true orbits (same attribute selection) ---- #
    # (AutoEst has no documented defaults for absent attributes: graphs with omitted attributes skip this part)
    for nattrs, eattrs in ((["element", "charge"], ["order"]), (["element", "charge", "aromatic", "hcount"], ["order"])) if with_est else ():
        nk = lambda a, b, _k=nattrs: all(a.get(k) == b.get(k) for k in _k)
        ek = lambda a, b, _k=eattrs: all(a.get(k) == b.get(k) for k in _k)
        true_orb = B.orbits_from(list(G.nodes), B.automorphisms(G, nk, ek))
        est = AutoEst(G, node_attrs=nattrs, edge_attrs=eattrs).fit()
        eo = est.orbits
        ctx.count("autoest_coarsening_checked")
        cover = {}
        for i, o in enumerate(eo):
            for v in o:
                cover.setdefault(v, []).append(i)
        if sorted(cover) != sorted(G.nodes) or any(len(v) != 1 for v in cover.values()):
            ctx.violation("autoest-not-partition", {**wit, "node_attrs": nattrs}, f"AutoEst orbits {eo} are not a partition of the nodes")
            continue
        for o in true_orb:
            if len({cover[v][0] for v in o}) != 1:
                ctx.violation("autoest-separates-orbit", {**wit, "node_attrs": nattrs},
                              f"AutoEst separates nodes {sorted(o)} that a real automorphism exchanges (estimate {sorted(map(sorted, eo))})")
                break
        if len(eo) < len(true_orb):
            ctx.count("autoest_strictly_coarser")
    if WG.gdigest(G) != g0:
        ctx.violation("input-mutated", wit, "analysis modified the graph")
    ctx.case(key, nontrivial=want_n > 1 or G.number_of_nodes() >= 4,
             sample={"space": tag, **wit, "automorphisms": want_n, "orbits": sorted(map(sorted, want_orb))}
             if (ctx.evaluations < 2 or rng.random() < 0.001) else None)


def sparse_attrs(G, rng):
    """the same labelled graph with default-valued attributes left out on some nodes/edges (charge 0, order 1.0):
    by the class's documented defaults this is the same input."""
    H = G.copy()
    n = 0
    for _, d in H.nodes(data=True):
        if d.get("charge", None) == 0 and rng.random() < 0.5:
            del d["charge"]
            n += 1
    for _, _, d in H.edges(data=True):
        if d.get("order", None) in (1, 1.0) and rng.random() < 0.5:
            del d["order"]
            n += 1
    return H, n


def check_dedup_direct(ctx):
    """match lists from the real subgraph search on random hosts, random orbit/anchor arguments."""
    from synkit.Graph.Matcher import dedup_matches as _dm
    deduplicate_matches_with_anchor = _dm.deduplicate_matches_with_anchor  # the monitored binding
    from synkit.Graph.Matcher.subgraph_matcher import SubgraphSearchEngine
    from synkit.Graph.Matcher.automorphism import Automorphism
    from synkit.Graph.Matcher.auto_est import AutoEst

    rng = ctx.rng
    for _ in range(40 if ctx.quick else 800):
        H = WG.random_mol(rng, rng.randint(4, 9), elements=("C", "C", "N"), components=rng.choice([1, 2]))
        P = WG.planted_pattern(rng, H, rng.randint(2, 4))
        P, _ = WG.scramble(P, rng)
        ms = SubgraphSearchEngine.find_subgraph_mappings(H, P, node_attrs=["element", "charge"], edge_attrs=["order"], strategy="all")
        if not ms:
            continue
        a = Automorphism(P)
        e = AutoEst(P).fit()
        for kw in ({"pattern_orbits": a.orbits, "pattern_anchor": a.anchor_component},
                   {"pattern_orbits": e.orbits, "pattern_anchor": e.anchor_component},
                   {"pattern_orbits": a.orbits}, {"host_orbits": Automorphism(H).orbits}, {}):
            deduplicate_matches_with_anchor(ms, **kw)
        ctx.count("direct_dedup_lists")
    flush(ctx)


def large_group_families():
    """graphs whose automorphism group is larger than any enumeration cut-off one might pick (> 4096 elements), with the
    exact group order and orbits known in closed form (stars: n!, complete graphs: n!, neopentane with explicit H:
    4! * 3!^4, disjoint unions: product of the parts when the parts are not isomorphic)."""
    import math

    def mk(g, elements=None):
        g = nx.convert_node_labels_to_integers(g, first_label=1)
        G = nx.Graph()
        for v in g.nodes:
            G.add_node(v, element=(elements or {}).get(v, "C"), hcount=0, charge=0, aromatic=False, atom_map=v, neighbors=[])
        for u, v in g.edges:
            G.add_edge(u, v, order=1, standard_order=0.0)
        return G

    out = {}
    for n in (7, 8):
        G = mk(nx.star_graph(n))          # node 1 = centre after relabelling
        out[f"star K1,{n}"] = (G, math.factorial(n), [{1}, set(range(2, n + 2))])
    G = mk(nx.complete_graph(7))
    out["K7"] = (G, math.factorial(7), [set(range(1, 8))])
    # neopentane, hydrogens as atoms: centre 1, carbons 2..5, hydrogens 6..17
    g = nx.Graph()
    g.add_edges_from((1, c) for c in range(2, 6))
    h = 6
    for c in range(2, 6):
        for _ in range(3):
            g.add_edge(c, h)
            h += 1
    G = nx.Graph()
    for v in sorted(g.nodes):
        G.add_node(v, element="H" if v >= 6 else "C", hcount=0, charge=0, aromatic=False, atom_map=v, neighbors=[])
    for u, v in g.edges:
        G.add_edge(u, v, order=1, standard_order=0.0)
    out["neopentane with explicit H"] = (G, 24 * 6 ** 4, [{1}, {2, 3, 4, 5}, set(range(6, 18))])
    G = mk(nx.disjoint_union(nx.star_graph(7), nx.path_graph(2)))
    out["star K1,7 + C-C"] = (G, math.factorial(7) * 2, [{1}, set(range(2, 9)), {9, 10}])
    return out


def check_large_group(ctx, name, G, want_n, want_orb):
    from synkit.Graph.Matcher.automorphism import Automorphism

    G2, mp = WG.scramble(G, ctx.rng)
    fwd = None
    if isinstance(mp, dict):
        fwd = mp
    if fwd is None or set(fwd) != set(G.nodes):
        # scramble() did not hand back an old->new map: recover one from atom_map-free structure is not possible in
        # general, so fall back to the unscrambled presentation
        G2, fwd = G, {v: v for v in G.nodes}
    want = {frozenset(fwd[v] for v in o) for o in want_orb}
    wit = {"graph": WG.describe(G2), "family": name}
    for kw in ({}, {"anchor_largest_component": False}):
        A = Automorphism(G2, **kw)
        ctx.count("large_group_checked")
        if A.n_automorphisms != want_n:
            ctx.violation("automorphism-count", wit, f"{name}: Automorphism({kw}).n_automorphisms={A.n_automorphisms}, the group has {want_n} elements (closed form)")
        got = {frozenset(o) for o in A.orbits}
        if got != want or len(got) != len(A.orbits):
            ctx.violation("orbits", wit, f"{name}: orbits {sorted(map(sorted, got))} != exact {sorted(map(sorted, want))}")
    ctx.case(("large-group", name), nontrivial=True, sample={"space": "large-group families (closed-form group order)", "family": name, "group_order": want_n})


def run(ctx):
    install()
    from checks import reactor_common as _RC
    _RC.RUN_TIMEOUT_S[0] = 10 if ctx.quick else 45
    rng = ctx.rng
    idx = 0
    import os
    if os.environ.get("C11_ONLY_PRUNING"):
        from checks import reactor_common as RC
        RC.pruning_differential(ctx, budget_frac=1e9)
        flush(ctx)
        return
    if ctx.quick:
        spaces = [("classes <=3 nodes (full alphabet)", [r for n in (1, 2, 3) for r in WG.classes(n)]),
                  ("classes of 4 nodes (2 elements x orders{1,2})", WG.classes(4, WG.RED_NODE, [1, 2]))]
    else:
        spaces = [("classes <=4 nodes (full alphabet)", [r for n in (1, 2, 3, 4) for r in WG.classes(n)]),
                  ("classes of 5 nodes (2 elements x orders{1,2}, <=5 bonds)", WG.classes(5, WG.RED_NODE, [1, 2], 5))]
    for tag, reps in spaces:
        for i, r in enumerate(reps):
            idx += 1
            if ctx.mine(idx):
                G, _ = WG.scramble(WG.to_nx(r), rng)
                check_graph(ctx, G, tag, ("cls", tag, i))
                if idx % 3 == ctx.seed % 3:
                    G2, k = sparse_attrs(G, rng)
                    if k:
                        ctx.count("graphs_with_omitted_default_attributes")
                        check_graph(ctx, G2, tag + " / default-valued attributes omitted on some atoms", ("cls-sparse", tag, i, WG.describe(G2)), with_est=False)
        ctx.exhaustive[tag] = True
    for t, (name, G) in enumerate(WG.symmetric_families().items()):
        if ctx.mine(t) and G.number_of_nodes() <= (9 if ctx.quick else 12):
            G2, _ = WG.scramble(G, rng)
            check_graph(ctx, G2, "symmetric family " + name, ("fam", name))
    for t, (name, (G, wn, wo)) in enumerate(large_group_families().items()):
        if ctx.mine(t + 3) and (wn <= 10080 or not ctx.quick or name.startswith("neopentane")):
            check_large_group(ctx, name, G, wn, wo)
    n = 200 if ctx.quick else 5000
    for t in range(n):
        if ctx.out_of_time(0.4):
            ctx.count("random_truncated_by_budget")
            break
        G = WG.random_mol(rng, rng.randint(3, 9), components=rng.choice([1, 1, 2, 3]),
                          elements=rng.choice([("C",), ("C", "C", "N"), ("C", "N", "O")]),
                          orders=rng.choice([(1,), (1, 1, 2)]), p_charge=0.1, hmax=rng.choice([0, 2]))
        G, _ = WG.scramble(G, rng)
        check_graph(ctx, G, "random graphs", ("rnd", WG.describe(G)))
        if t % 2 == 0:
            G2, k = sparse_attrs(G, rng)
            if k:
                ctx.count("graphs_with_omitted_default_attributes")
                check_graph(ctx, G2, "random graphs / default-valued attributes omitted on some atoms", ("rnd-sparse", WG.describe(G2)), with_est=False)
    check_dedup_direct(ctx)
    # ---- pruning differential on the reactor ---- #
    from checks import reactor_common as RC
    RC.pruning_differential(ctx, budget_frac=1.0)
    flush(ctx)
    if not ctx.quick and ctx.shard == 0:
        from vmon import suite
        suite.run_under(ctx, "c11")  # the repository's own tests with this monitor installed


def replay(ctx, v):
    install()
    w = v["witness"]
    if "graph" in w:
        sparse = any(r[3] is None for r in w["graph"]["nodes"]) or any(r[2] is None for r in w["graph"]["edges"])
        check_graph(ctx, WG.from_desc(w["graph"]), "replay", ("replay",), with_est=not sparse)
    elif "template_rid" in w or "rsmi" in w or "template" in w:
        from checks import reactor_common as RC
        RC.replay_pruning(ctx, w)
    else:
        print(w)
        ctx.violation(v["kind"], w, "dedup witness: see input/output lists")
