"""C10 — changing representation (SMILES, graph, explicit/implicit H, GML) loses nothing.

Monitors: round-trip post-conditions on smiles_to_graph / graph_to_smi (RDKit canonical SMILES +
reference atom/bond tables), h_to_explicit / h_to_implicit / implicit_hydrogen (graph restored, molecule
and total hydrogen count unchanged), its_to_gml / gml_to_its (centre rule survives) and equivalence of
the GML rules produced by smart_to_gml and its_to_gml, judged through an independent regex GML reader."""
from __future__ import annotations

import re

import networkx as nx
from networkx.algorithms.isomorphism import GraphMatcher

from oracles import rdkit_rxn as R
from workloads import corpus
from workloads import graphs as WG

RULE = (
    "one case = one molecule (SMILES/graph/H round trips) or one reaction (GML round trip and rule equivalence, core "
    "and full, reindex on/off); distinct = distinct molecule / reaction; non-trivial = molecule with >=2 heavy atoms "
    "resp. reaction with >=1 changed bond"
)
REQUIRED = ["smiles_roundtrip_checked", "graph_tables_checked", "h_roundtrip_checked", "implicit_hydrogen_checked",
            "implicit_hydrogen_multi_h_same_atom", "gml_roundtrip_checked", "gml_equivalence_checked", "gml_second_generation_checked", "gml_second_generation_with_aromatic_bonds", "gml_explicit_hydrogen_export_checked",
            "preserve_with_atom_map_different_from_node_id",
            "charged_molecules", "aromatic_molecules", "charge_changing_rules", "h2_molecules", "reindex_runs", "h_roundtrip_scrambled_ids", "multiply_charged_rules"]
ASSUMPTIONS = [
    "stereochemistry is not carried by the graph layer; canonical SMILES compared non-isomerically",
    "GML node labels carry element and charge only; hydrogen counts are not part of a GML rule and are not compared there",
    "rule equivalence = isomorphism of (left label, right label) / (left order, right order) annotated graphs read by the harness' own GML reader",
]
SHARDS = {"quick": 8, "thorough": 16}
BUDGET_S = {"quick": 60, "thorough": 600}


def canon(smi):
    from rdkit import Chem
    m = Chem.MolFromSmiles(smi)
    if m is None:
        return None
    for a in m.GetAtoms():
        a.SetAtomMapNum(0)
    return R._smiles_without_stereo(m)


def total_h(g):
    return sum(d.get("hcount", 0) for _, d in g.nodes(data=True) if d.get("element") != "H") + \
        sum(1 for _, d in g.nodes(data=True) if d.get("element") == "H") + \
        sum(d.get("hcount", 0) for _, d in g.nodes(data=True) if d.get("element") == "H")


def same_graph(a, b, keys=("element", "charge", "hcount", "aromatic")):
    if set(a.nodes) != set(b.nodes):
        return f"atoms differ: {sorted(set(a.nodes) ^ set(b.nodes))[:6]}"
    for n in a.nodes:
        for k in keys:
            if a.nodes[n].get(k) != b.nodes[n].get(k):
                return f"atom {n}: {k} {b.nodes[n].get(k)!r} != {a.nodes[n].get(k)!r}"
    ea = {frozenset(e): a.edges[e].get("order") for e in a.edges}
    eb = {frozenset(e): b.edges[e].get("order") for e in b.edges}
    if ea != eb:
        return "bonds / orders differ"
    return None


def check_molecule(ctx, smi, tag):
    from rdkit import Chem
    from synkit.IO.chem_converter import smiles_to_graph, graph_to_smi
    from synkit.Graph.Hyrogen._misc import h_to_explicit, h_to_implicit, implicit_hydrogen

    rng = ctx.rng
    wit = {"smiles": smi}
    ref = canon(smi)
    if ref is None:
        ctx.count("molecules_not_sanitisable")
        return
    gap = R.representation_gap(smi)
    if gap:
        # recorded limits of the graph layer (no isotope label, numeric bond order only): only the plain round trip is judged
        ctx.count("molecules_with_representation_gap")
        g = smiles_to_graph(smi)
        s2 = graph_to_smi(g) if g is not None else None
        if s2 is None or canon(s2) != ref:
            ctx.violation("smiles-roundtrip", {**wit, "out": s2}, f"SMILES -> graph -> SMILES changed the molecule: {smi!r} -> {s2!r}", finding=gap)
        ctx.case(("mol", ref), nontrivial=True, sample={"space": tag, "smiles": smi, "roundtrip": s2})
        return
    g = smiles_to_graph(smi)
    if g is None:
        ctx.violation("smiles_to_graph", wit, "smiles_to_graph returned None for a sanitisable molecule")
        return
    g0 = WG.gdigest(g)
    # reference tables by atom index (+1)
    m = R.parse(smi)
    ctx.count("graph_tables_checked")
    for a in m.GetAtoms():
        d = g.nodes.get(a.GetIdx() + 1)
        want = (a.GetSymbol(), a.GetTotalNumHs(), a.GetFormalCharge(), a.GetIsAromatic())
        if d is None or (d.get("element"), d.get("hcount"), d.get("charge"), d.get("aromatic")) != want:
            ctx.violation("graph-attributes", wit, f"atom {a.GetIdx() + 1}: graph {None if d is None else (d.get('element'), d.get('hcount'), d.get('charge'), d.get('aromatic'))} != reference {want}")
            return
    bonds = {frozenset((b.GetBeginAtomIdx() + 1, b.GetEndAtomIdx() + 1)): b.GetBondTypeAsDouble() for b in m.GetBonds()}
    if {frozenset(e): g.edges[e].get("order") for e in g.edges} != bonds:
        ctx.violation("graph-attributes", wit, "bond table of the graph differs from the reference reader")
        return
    s2 = graph_to_smi(g)
    ctx.count("smiles_roundtrip_checked")
    if s2 is None or canon(s2) != ref:
        ctx.violation("smiles-roundtrip", {**wit, "out": s2}, f"SMILES -> graph -> SMILES changed the molecule: {s2!r}")
    # ---- hydrogens ---- #
    e = h_to_explicit(g)
    i = h_to_implicit(e)
    ctx.count("h_roundtrip_checked")
    p = same_graph(g, i)
    if p:
        ctx.violation("h-roundtrip", wit, f"h_to_implicit(h_to_explicit(g)) != g: {p}")
    th = total_h(g)
    if total_h(e) != th or total_h(i) != th:
        ctx.violation("h-total", wit, f"total hydrogen count changes: {th} -> explicit {total_h(e)} -> implicit {total_h(i)}")
    for name, gg in (("explicit", e), ("implicit", i)):
        s3 = graph_to_smi(gg)
        if s3 is None or canon(s3) != ref:
            ctx.violation("h-molecule", {**wit, "out": s3}, f"the {name}-hydrogen graph is a different molecule: {s3!r}")
    # the same round trip on a renumbered copy whose nodes were inserted in a non-ascending id order
    gs, mp = WG.scramble(g, rng)
    es = h_to_explicit(gs)
    ctx.count("h_roundtrip_scrambled_ids")
    p2 = same_graph(gs, h_to_implicit(es))
    if p2 or total_h(es) != th or set(gs.nodes) - set(es.nodes):
        ctx.violation("h-roundtrip", {**wit, "scrambled_nodes": list(gs.nodes)}, f"h_to_explicit/h_to_implicit on a renumbered copy (node order {list(gs.nodes)[:8]}): {p2 or 'hydrogen count / atoms changed'}")
    else:
        s5 = graph_to_smi(es)
        if s5 is None or canon(s5) != ref:
            ctx.violation("h-molecule", {**wit, "scrambled_nodes": list(gs.nodes), "out": s5}, f"explicit-hydrogen form of a renumbered copy is a different molecule: {s5!r}")
    # partial expansion on a node subset
    nodes = [n for n in g.nodes if g.nodes[n].get("hcount", 0) > 0]
    if nodes:
        sub = rng.sample(nodes, rng.randint(1, len(nodes)))
        e2 = h_to_explicit(g, sub)
        if total_h(e2) != th or same_graph(g, h_to_implicit(e2)):
            ctx.violation("h-roundtrip", {**wit, "nodes": sub}, "partial expansion does not round-trip")
        # implicit_hydrogen with preserve sets (mapped explicit H, several on one atom)
        e3 = e.copy()
        hn = [n for n, d in e3.nodes(data=True) if d.get("element") == "H" and n not in g.nodes]
        shift = rng.choice([0, 0, 100, 7])     # atom-map numbers need not coincide with the node ids
        if shift:
            ctx.count("preserve_with_atom_map_different_from_node_id")
        for n in e3.nodes:
            e3.nodes[n]["atom_map"] = n + shift
        if hn:
            k = rng.randint(0, len(hn))
            keep = set(rng.sample(hn, k))
            by_heavy = {}
            for h in keep:
                for x in e3[h]:
                    by_heavy[x] = by_heavy.get(x, 0) + 1
            if any(v >= 2 for v in by_heavy.values()):
                ctx.count("implicit_hydrogen_multi_h_same_atom")
            d3 = WG.gdigest(e3)
            out = implicit_hydrogen(e3, {h_ + shift for h_ in keep})
            ctx.count("implicit_hydrogen_checked")
            if WG.gdigest(e3) != d3:
                ctx.violation("input-mutated", {**wit, "preserve": sorted(keep), "call": "implicit_hydrogen"},
                              "implicit_hydrogen modified the graph it was given (documented to work on a copy)")
                e3 = e.copy()
                for n in e3.nodes:
                    e3.nodes[n]["atom_map"] = n
            if keep:
                d3 = WG.gdigest(e3)
                w1 = graph_to_smi(e3, preserve_atom_maps=sorted(h_ + shift for h_ in keep))
                w2 = graph_to_smi(e3, preserve_atom_maps=sorted(h_ + shift for h_ in keep))
                ctx.count("graph_to_smi_preserve_checked")
                if WG.gdigest(e3) != d3 or w1 != w2 or w1 is None or canon(w1) != ref:
                    ctx.violation("input-mutated" if WG.gdigest(e3) != d3 else "h-molecule", {**wit, "preserve": sorted(keep), "call": "graph_to_smi(preserve_atom_maps=...)"},
                                  f"graph_to_smi with preserved hydrogens: first call {w1!r}, second call on the same graph {w2!r}, molecule {ref!r}")
            want_nodes = set(g.nodes) | keep
            prob = None
            if set(out.nodes) != want_nodes:
                prob = f"atoms {sorted(set(out.nodes) ^ want_nodes)[:6]} differ from heavy atoms + preserved hydrogens"
            elif total_h(out) != th:
                prob = f"total hydrogen count {total_h(out)} != {th}"
            else:
                for x in g.nodes:
                    if out.nodes[x].get("hcount") != g.nodes[x].get("hcount", 0) - by_heavy.get(x, 0):
                        prob = f"atom {x}: hcount {out.nodes[x].get('hcount')} != {g.nodes[x].get('hcount', 0)} - {by_heavy.get(x, 0)} preserved"
                        break
            if prob is None:
                s4 = graph_to_smi(out)
                if s4 is None or canon(s4) != ref:
                    prob = f"resulting molecule {s4!r} differs"
            if prob:
                ctx.violation("implicit_hydrogen", {**wit, "preserve": sorted(keep)}, f"implicit_hydrogen: {prob}")
    if WG.gdigest(g) != g0:
        ctx.violation("input-mutated", wit, "a conversion modified its input graph")
    if any(a.GetFormalCharge() for a in m.GetAtoms()):
        ctx.count("charged_molecules")
    if any(a.GetIsAromatic() for a in m.GetAtoms()):
        ctx.count("aromatic_molecules")
    if m.GetNumAtoms() >= 1 and all(a.GetSymbol() == "H" for a in m.GetAtoms()):
        ctx.count("h2_molecules")
    ctx.case(("mol", ref), nontrivial=m.GetNumHeavyAtoms() >= 2,
             sample={"space": tag, "smiles": smi, "roundtrip": s2} if (ctx.evaluations < 2 or rng.random() < 0.01) else None)


# --------------------------------------------------------------------------- #
NODE_RE = re.compile(r'node\s*\[\s*id\s+(\d+)\s+label\s+"([^"]*)"\s*\]')
EDGE_RE = re.compile(r'edge\s*\[\s*source\s+(\d+)\s+target\s+(\d+)\s+label\s+"([^"]*)"\s*\]')


def read_gml(text):
    """independent reader: returns rule graph with node label (left, right) and edge label (left, right)."""
    sec = None
    nodes = {"left": {}, "context": {}, "right": {}}
    edges = {"left": {}, "context": {}, "right": {}}
    for line in text.splitlines():
        s = line.strip()
        m = re.match(r"(left|context|right)\s*\[", s)
        if m:
            sec = m.group(1)
            continue
        if sec is None:
            continue
        for mm in NODE_RE.finditer(s):
            nodes[sec][int(mm.group(1))] = mm.group(2)
        for mm in EDGE_RE.finditer(s):
            edges[sec][frozenset((int(mm.group(1)), int(mm.group(2))))] = mm.group(3)
    g = nx.Graph()
    ids = set(nodes["left"]) | set(nodes["context"]) | set(nodes["right"])
    for e in list(edges["left"]) + list(edges["context"]) + list(edges["right"]):
        ids |= set(e)
    for n in ids:
        l = nodes["context"].get(n, nodes["left"].get(n))
        r = nodes["context"].get(n, nodes["right"].get(n))
        g.add_node(n, lab=(l, r))
    for e in set(edges["left"]) | set(edges["context"]) | set(edges["right"]):
        u, v = tuple(e) if len(e) == 2 else (next(iter(e)),) * 2
        l = edges["context"].get(e, edges["left"].get(e))
        r = edges["context"].get(e, edges["right"].get(e))
        g.add_edge(u, v, lab=(l, r))
    return g


def rules_equivalent(a, b, changed_only=False):
    if changed_only:
        a, b = strip_unchanged(a), strip_unchanged(b)
    return GraphMatcher(a, b, node_match=lambda x, y: x["lab"] == y["lab"],
                        edge_match=lambda x, y: x["lab"] == y["lab"]).is_isomorphic()


def strip_unchanged(g):
    h = g.copy()
    return h


def without_spectator_h(g):
    """rule graph without hydrogen atoms all of whose bonds are unchanged single bonds (they only restate hydrogen counts)."""
    h = g.copy()
    drop = [n for n, d in h.nodes(data=True) if d["lab"] == ("H", "H") and h.degree(n) >= 1
            and all(h[n][m]["lab"] == ("-", "-") for m in h[n]) and all(h.nodes[m]["lab"] != ("H", "H") for m in h[n])]
    h.remove_nodes_from(drop)
    return h


def its_rule_graph(its):
    """the same annotated rule graph computed directly from an ITS (element+charge labels, order labels)."""
    lab = {1: "-", 1.0: "-", 1.5: ":", 2: "=", 2.0: "=", 3: "#", 3.0: "#"}

    def cs(c):
        return "" if c == 0 else (("+" if c == 1 else f"{c}+") if c > 0 else ("-" if c == -1 else f"{-c}-"))

    g = nx.Graph()
    for n, d in its.nodes(data=True):
        t0, t1 = d["typesGH"]
        g.add_node(n, lab=(f"{t0[0]}{cs(t0[3])}", f"{t1[0]}{cs(t1[3])}"))
    for u, v, d in its.edges(data=True):
        o = d["order"]
        g.add_edge(u, v, lab=(lab.get(o[0]) if o[0] else None, lab.get(o[1]) if o[1] else None))
    return g


def check_reaction(ctx, r, tag):
    from synkit.IO.chem_converter import rsmi_to_its, its_to_gml, gml_to_its, smart_to_gml
    from synkit.Graph.ITS.its_decompose import get_rc

    wit = {"rsmi": r}
    its = rsmi_to_its(r)
    rc = get_rc(its)
    i0 = WG.gdigest(its)
    if rc.number_of_nodes() == 0:
        ctx.count("reactions_without_centre")
        return
    if any(d["typesGH"][0][3] != d["typesGH"][1][3] for _, d in rc.nodes(data=True)):
        ctx.count("charge_changing_rules")
    want_core = its_rule_graph(rc)
    want_full = its_rule_graph(its)
    for reindex in (False, True):
        ctx.count("reindex_runs")
        texts = {
            "smart_to_gml(core)": (smart_to_gml(r, core=True, reindex=reindex), want_core),
            "its_to_gml(its,core)": (its_to_gml(its, core=True, reindex=reindex), want_core),
            "its_to_gml(rc,core)": (its_to_gml(rc, core=True, reindex=reindex), want_core),
            "its_to_gml(rc,full)": (its_to_gml(rc, core=False, reindex=reindex), want_core),
            "smart_to_gml(full)": (smart_to_gml(r, core=False, reindex=reindex), want_full),
            "its_to_gml(its,full)": (its_to_gml(its, core=False, reindex=reindex), want_full),
        }
        parsed = {}
        for name, (txt, want) in texts.items():
            ctx.count("gml_equivalence_checked")
            g = read_gml(txt)
            parsed[name] = g
            if not rules_equivalent(g, want):
                ctx.violation("gml-rule", {**wit, "producer": name, "reindex": reindex, "gml": txt[:1500]},
                              f"{name} (reindex={reindex}) does not encode the reaction's {'centre' if want is want_core else 'full'} rule")
                break
        else:
            for a, b in (("smart_to_gml(core)", "its_to_gml(its,core)"), ("smart_to_gml(core)", "its_to_gml(rc,core)"),
                         ("smart_to_gml(full)", "its_to_gml(its,full)")):
                if not rules_equivalent(parsed[a], parsed[b]):
                    ctx.violation("gml-producers-disagree", {**wit, "a": a, "b": b, "reindex": reindex}, f"{a} and {b} give non-equivalent rules")
        # ITS -> GML -> ITS on the centre
        back = gml_to_its(texts["its_to_gml(rc,core)"][0])
        ctx.count("gml_roundtrip_checked")
        try:
            got = its_rule_graph(back)
            ok = rules_equivalent(got, want_core)
        except Exception as e:
            ok = False
        if not ok:
            ctx.violation("gml-roundtrip", {**wit, "reindex": reindex}, "gml_to_its(its_to_gml(rc)) is not isomorphic to rc on (element, charges, order pairs)")
        # full ITS through GML, and a second generation (an ITS that was itself loaded from GML is exported again:
        # it carries the order pairs but none of the RDKit-derived flags)
        for core, want, src, nm in ((False, want_full, its, "full"), (True, want_core, rc, "centre"), (False, want_full, its, "full+explicit_hydrogen")):
            try:
                kw_x = {"explicit_hydrogen": True} if nm.endswith("explicit_hydrogen") else {}
                if kw_x:
                    ctx.count("gml_explicit_hydrogen_export_checked")
                b1 = gml_to_its(its_to_gml(src, core=core, reindex=reindex, **kw_x))
                if kw_x:
                    # hydrogens were written out as atoms: compare the rules without spectator hydrogens
                    ok1 = rules_equivalent(without_spectator_h(its_rule_graph(b1)), without_spectator_h(want))
                    ok2 = ok3 = True
                else:
                    ok1 = rules_equivalent(its_rule_graph(b1), want)
                    txt2 = its_to_gml(b1, core=core, reindex=reindex)
                    ok2 = rules_equivalent(read_gml(txt2), want)
                    ok3 = rules_equivalent(its_rule_graph(gml_to_its(txt2)), want)
            except Exception as e:
                ctx.violation("gml-second-generation", {**wit, "reindex": reindex, "core": core}, f"{nm} rule: {type(e).__name__}: {e}")
                continue
            ctx.count("gml_second_generation_checked")
            if any(abs(d["order"][0] - 1.5) < 1e-9 or abs(d["order"][1] - 1.5) < 1e-9 for _, _, d in src.edges(data=True)):
                ctx.count("gml_second_generation_with_aromatic_bonds")
            if not (ok1 and ok2 and ok3):
                ctx.violation("gml-second-generation", {**wit, "reindex": reindex, "core": core},
                              f"{nm} rule: ITS->GML->ITS ok={ok1}; re-export of the loaded ITS encodes the same rule={ok2}; loaded again={ok3}")
    if WG.gdigest(its) != i0:
        ctx.violation("input-mutated", wit, "GML export modified the ITS")
    ctx.case(("rx", r), nontrivial=rc.number_of_edges() >= 1,
             sample={"space": tag, "rsmi": r, "centre_atoms": rc.number_of_nodes()} if (ctx.rng.random() < 0.01) else None)


CHARGED_RXNS = [
    "[O-2:1].[CH3:2][Cl:3]>>[O-:1][CH3:2].[Cl-:3]",
    "[S-2:1].[CH3:2][Br:3]>>[S-:1][CH3:2].[Br-:3]",
    "[Mg+2:1].[OH-:2]>>[Mg+:1][OH:2]",
    "[Fe+3:1].[Cl-:2]>>[Fe+2:1][Cl:2]",
    "[CH3:17][Cl:27].[OH-:37]>>[CH3:17][OH:37].[Cl-:27]",
    "[O-:1][P:2](=[O:3])([O-:4])[O-:5].[CH3:6][I:7]>>[CH3:6][O:1][P:2](=[O:3])([O-:4])[O-:5].[I-:7]",
    "[NH4+:1].[OH-:2]>>[NH3:1].[OH2:2]",
]


# isotope-labelled molecules and molecules with dative / quadruple bonds (sanitisable, legal SMILES)
GAP_MOLECULES = ["[2H]O[2H]", "[13CH4]", "C[13C](=O)O", "[18OH2]", "CC(=O)[18OH]", "C[P](C)(C)->[Pd]", "CS(C)->[Pt]", "[NH3]->[BH3]",
                 "c1ccn(->[Cu+])cc1", "C[N+](C)(C)[O-]", "[Mo]$[Mo]"]


def run(ctx):
    rng = ctx.rng
    for i, r in enumerate(CHARGED_RXNS):
        if ctx.mine(i):
            ctx.count("multiply_charged_rules")
            check_reaction(ctx, r, "hand-written reactions with charges of magnitude >= 2 and non-trivial numbering")
            check_reaction(ctx, corpus.renumber(r, rng), "hand-written reactions with charges of magnitude >= 2 and non-trivial numbering")
    mols = list(corpus.molecules()) + corpus.VENDORED_MOLECULES + ["[O-2]", "[Mg+2]", "O=S(=O)([O-])[O-]", "[Fe+3]", "[N-3]"] + GAP_MOLECULES
    for i, s in enumerate(mols):
        if ctx.mine(i):
            check_molecule(ctx, s, "corpus molecules + vendored list")
    # random-order rewritings of the same molecules (atom order must not matter)
    from rdkit import Chem
    for i, s in enumerate(mols):
        if ctx.mine(i) and (not ctx.quick or i % 4 == ctx.seed % 4) and not ctx.out_of_time(0.4):
            m = Chem.MolFromSmiles(s)
            if m is not None and m.GetNumAtoms() > 1:
                for t in Chem.MolToRandomSmilesVect(m, 1 if ctx.quick else 12, randomSeed=rng.randrange(1, 10**6)):
                    check_molecule(ctx, t, "random-order rewritings")
    wf = corpus.wellformed_reactions()
    for i, (rid, r) in enumerate(wf):
        if not ctx.mine(i):
            continue
        if ctx.quick and (i // ctx.nshards) % 2 != ctx.seed % 2:
            continue
        if ctx.out_of_time():
            ctx.count("reactions_truncated_by_budget")
            break
        check_reaction(ctx, r, "corpus reactions")
        for _ in range(1 if ctx.quick else 5):
            check_reaction(ctx, corpus.renumber(r, rng), "renumbered corpus reactions")


def replay(ctx, v):
    w = v["witness"]
    if "smiles" in w:
        check_molecule(ctx, w["smiles"], "replay")
    else:
        check_reaction(ctx, w["rsmi"], "replay")
