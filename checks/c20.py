"""C20 — siphons, traps, firing rule and pathway realizability match their Petri-net definitions.

Monitors: brute-force siphon/trap enumeration from the definitions; icontract
post-conditions on PetriNet.enabled / PetriNet.fire (evaluated on every call, including
the ones made inside the realizability search); an independent explicit-state search
deciding realizability; integer replay of returned certificates."""
from __future__ import annotations

import itertools
from functools import lru_cache

from workloads import crn as W

RULE = (
    "one case = one model network (siphons/traps for every species subset) or one (network, flow) "
    "pair (realizability); distinct = distinct network / (network, flow); non-trivial = >=2 species "
    "and >=1 reaction with both sides, resp. total flow >= 2"
)
REQUIRED = ["siphon_sets_checked", "trap_sets_checked", "enabled_contract_evals", "fire_contract_evals",
            "realizable_true", "realizable_false", "certificates_replayed", "catalyst_firings",
            "networks_with_siphon_larger_than_2", "flows_needing_specific_order", "analyzer_checked", "history_after_borrow_checked", "borrow_vectors_nonzero",
            "scaled_search_checked", "flows_realizable_only_after_scaling", "siphon_family_4x4_checked",
            "via_graph_without_coefficients", "hub_and_cycle_networks"]
ASSUMPTIONS = [
    "realizability compared only for flows whose product of (flow+1) <= 10^4 (complete search on both sides, well inside the code's default bounds)",
    "max_size argument: expected = inclusion-minimal sets among those of size <= max_size",
]
SHARDS = {"quick": 8, "thorough": 16}
BUDGET_S = {"quick": 50, "thorough": 480}

_ct = {"enabled": 0, "fire": 0, "cat": 0}
_contract_fail = []


def enabled_post(self, marking, tid, result):
    _ct["enabled"] += 1
    t = self.transitions[tid]
    want = all(marking.get(p, 0) >= w for p, w in t.pre.items())
    if bool(result) != want:
        _contract_fail.append(("enabled", dict(marking), tid, dict(t.pre), dict(t.post), result))
    return True


def fire_snapshot(marking):
    return dict(marking)


def fire_post(self, marking, tid, result, OLD):
    _ct["fire"] += 1
    t = self.transitions[tid]
    if dict(marking) != OLD.m0:
        _contract_fail.append(("fire-mutates-input", OLD.m0, tid, dict(t.pre), dict(t.post), dict(marking)))
    places = set(OLD.m0) | set(t.pre) | set(t.post) | set(result)
    if set(t.pre) & set(t.post):
        _ct["cat"] += 1
    for p in places:
        want = OLD.m0.get(p, 0) - t.pre.get(p, 0) + t.post.get(p, 0)
        if result.get(p, 0) != want:
            _contract_fail.append(("fire", OLD.m0, tid, dict(t.pre), dict(t.post), dict(result)))
            break
    return True


_installed = [False]


def install():
    if _installed[0]:
        return
    import icontract
    from synkit.CRN.Petri import net as netmod

    class PostBroken(Exception):
        pass

    P = netmod.PetriNet
    P.enabled = icontract.ensure(enabled_post, error=PostBroken)(P.enabled)
    P.fire = icontract.snapshot(fire_snapshot, name="m0")(icontract.ensure(fire_post, error=PostBroken)(P.fire))
    _installed[0] = True


def flush_contracts(ctx, wit):
    ctx.count("enabled_contract_evals", _ct["enabled"])
    ctx.count("fire_contract_evals", _ct["fire"])
    ctx.count("catalyst_firings", _ct["cat"])
    _ct["enabled"] = _ct["fire"] = _ct["cat"] = 0
    for f in _contract_fail[:2]:
        ctx.violation("firing-rule-" + f[0], {**wit, "marking": f[1], "tid": f[2], "pre": f[3], "post": f[4]},
                      f"PetriNet.{f[0]}: marking {f[1]} transition pre={f[3]} post={f[4]} -> {f[5]}")
    del _contract_fail[:]


# --------------------------------------------------------------------------- #
def brute_sets(net, species):
    sip, trp = [], []
    for k in range(1, len(species) + 1):
        for combo in itertools.combinations(species, k):
            S = set(combo)
            ok_s = ok_t = True
            for _, a, b in net:
                cons = any(s in S for s, _ in a)
                prod = any(s in S for s, _ in b)
                if prod and not cons:
                    ok_s = False
                if cons and not prod:
                    ok_t = False
            if ok_s:
                sip.append(frozenset(S))
            if ok_t:
                trp.append(frozenset(S))
    return sip, trp


def minimal(sets):
    return {s for s in sets if not any(t < s for t in sets)}


def check_structure(ctx, net, tag="", via_graph=False):
    from synkit.CRN.Petri.structure import find_siphons, find_traps

    H = W.build_hg(net)
    species = W.species_of(net)
    obj = H
    if via_graph:
        from synkit.CRN.Hypergraph.conversion import hypergraph_to_bipartite
        # exported with or without coefficient attributes (siphons and traps depend on the arcs only)
        no_st = (len(net) + sum(len(a) + len(b) for _, a, b in net)) % 2 == 1
        obj = hypergraph_to_bipartite(H, integer_ids=False, include_stoich=not no_st)
        ctx.count("via_graph_without_coefficients" if no_st else "via_graph_with_coefficients")
    sip, trp = brute_sets(net, species)
    wit = {"net": net, "reactions": W.fmt_net(net), "via_graph": via_graph}
    for name, fn, allsets in (("siphon", find_siphons, sip), ("trap", find_traps, trp)):
        got = fn(obj)
        ctx.count(f"{name}_sets_checked", 2 ** len(species) - 1)
        gs = [frozenset(x) for x in got]
        want = minimal(allsets)
        if len(gs) != len(set(gs)) or set(gs) != want:
            ctx.violation(name + "s", wit, f"find_{name}s -> {sorted(map(sorted, gs))} but minimal {name}s by definition are {sorted(map(sorted, want))}")
        if name == "siphon" and any(len(s) > 2 for s in want):
            ctx.count("networks_with_siphon_larger_than_2")
        for ms in {1, max(1, len(species) - 1)}:
            got2 = {frozenset(x) for x in fn(obj, max_size=ms)}
            want2 = minimal([s for s in allsets if len(s) <= ms])
            ctx.count(f"{name}_max_size_checked")
            if got2 != want2:
                ctx.violation(name + "s-max-size", {**wit, "max_size": ms}, f"find_{name}s(max_size={ms}) -> {sorted(map(sorted, got2))} want {sorted(map(sorted, want2))}")
    # the analyzer facade must report the same sets
    from synkit.CRN.Petri.analyzer import PetriAnalyzer
    an = PetriAnalyzer(obj).compute_siphons_traps()
    ctx.count("analyzer_checked")
    if {frozenset(x) for x in an.siphons} != minimal(sip) or {frozenset(x) for x in an.traps} != minimal(trp):
        ctx.violation("analyzer", wit, f"PetriAnalyzer siphons/traps {an.siphons} / {an.traps} differ from the definitions")
    nontrivial = len(species) >= 2 and any(a and b for _, a, b in net)
    ctx.case(("struct", net, via_graph), nontrivial=nontrivial,
             sample={"space": tag, "reactions": W.fmt_net(net), "minimal_siphons": sorted(map(sorted, minimal(sip))),
                     "minimal_traps": sorted(map(sorted, minimal(trp)))}
             if (ctx.evaluations < 2 or ctx.rng.random() < 0.001) else None)


# --------------------------------------------------------------------------- #
def realizable_oracle(net, flow):
    """explicit-state search over remaining firing counts; returns (bool, n_states, needs_order)."""
    species = W.species_of(net)
    ix = {s: i for i, s in enumerate(species)}
    pre = [tuple(dict(a).get(s, 0) for s in species) for _, a, _ in net]
    eff = [tuple(dict(b).get(s, 0) - dict(a).get(s, 0) for s in species) for _, a, b in net]
    n = len(net)
    total = tuple(sum(flow[j] * eff[j][i] for j in range(n)) for i in range(len(species)))
    if any(total):
        return False, 0, False
    seen = {}
    dead_end = [False]

    def marking(rem):
        fired = [flow[j] - rem[j] for j in range(n)]
        return tuple(sum(fired[j] * eff[j][i] for j in range(n)) for i in range(len(species)))

    def go(rem):
        if rem in seen:
            return seen[rem]
        if not any(rem):
            seen[rem] = True
            return True
        m = marking(rem)
        ok = False
        for j in range(n):
            if rem[j] and all(m[i] >= pre[j][i] for i in range(len(species))):
                r2 = rem[:j] + (rem[j] - 1,) + rem[j + 1:]
                if go(r2):
                    ok = True
                else:
                    dead_end[0] = True
        seen[rem] = ok
        return ok

    import sys
    sys.setrecursionlimit(10000)
    res = go(tuple(flow))
    return res, len(seen), dead_end[0]


def check_realizability(ctx, net, flow, tag=""):
    from synkit.CRN.Path.realizability import PathwayRealizability, hypergraph_to_pr_inputs

    H = W.build_hg(net)
    ids = list(H.edges.keys())
    fmap = {i: f for i, f in zip(ids, flow)}
    wit = {"net": net, "reactions": W.fmt_net(net), "flow": flow}
    vertices, edges, flow_map = hypergraph_to_pr_inputs(H, flow=fmap)
    if flow_map != fmap or set(vertices) != set(W.species_of(net)):
        ctx.violation("pr-inputs", wit, f"hypergraph_to_pr_inputs: {vertices} {flow_map}")
        return
    pr = PathwayRealizability().load_hypergraph_and_flow(vertices, edges, flow_map)
    pr.build_petri_net_from_flow()
    ok, cert = pr.is_realizable()
    want, nstates, needs_order = realizable_oracle(net, flow)
    flush_contracts(ctx, wit)
    ctx.count("realizable_true" if want else "realizable_false")
    if needs_order and want:
        ctx.count("flows_needing_specific_order")
    if ok and not want:
        ctx.violation("realizable-false-positive", wit, f"reported realizable with {cert} but no ordering exists")
    if want and not ok:
        ctx.violation("realizable-false-negative", wit, f"reported unrealizable although an ordering exists ({nstates} states, far inside the default bounds)")
    if ok:
        ctx.count("certificates_replayed")
        problem = replay_certificate(net, ids, flow, cert)
        if problem:
            ctx.violation("certificate", wit, f"certificate {cert}: {problem}")
        if pr.certificate != cert:
            ctx.violation("certificate", wit, f"stored certificate {pr.certificate} != returned {cert}")
    # scaled search: smallest factor k <= 3 for which k*flow has an ordering; afterwards the instance answers for the
    # original flow again (no borrow search in between: that one rebuilds the net itself)
    if sum(flow) and 3 * sum(flow) <= 18:
        want_k = next((k for k in (1, 2, 3) if realizable_oracle(net, [k * f for f in flow])[0]), None)
        oks, ks = pr.is_scaled_realizable(k_max=3)
        ctx.count("scaled_search_checked")
        if want_k is not None and want_k >= 2:
            ctx.count("flows_realizable_only_after_scaling")
        if (oks, ks) != (want_k is not None, want_k):
            ctx.violation("scaled-realizable", wit, f"is_scaled_realizable(k_max=3) = {(oks, ks)}, the smallest factor with an ordering is {want_k}")
        ok3, cert3 = pr.is_realizable()
        if ok3 != want:
            ctx.violation("realizable-depends-on-history", {**wit, "after": "scaled search"},
                          f"after is_scaled_realizable on the same instance, is_realizable() = {ok3} but an ordering {'exists' if want else 'does not exist'}")
        elif ok3:
            problem = replay_certificate(net, ids, flow, cert3)
            if problem:
                ctx.violation("certificate", {**wit, "after": "scaled search"}, f"certificate {cert3} after a scaled search: {problem}")
    # history: the auxiliary searches (scaled / borrow) must leave the instance as they found it
    if len(W.species_of(net)) <= 4 and sum(flow) <= 6:
        pr.is_scaled_realizable(k_max=2)
        okb, b = pr.is_borrow_realizable(max_borrow_each=1)
        ok2, cert2 = pr.is_realizable()
        ctx.count("history_after_borrow_checked")
        if okb and b and any(b.values()):
            ctx.count("borrow_vectors_nonzero")
        if ok2 != want:
            ctx.violation("realizable-depends-on-history", {**wit, "borrow": dict(b) if b else None},
                          f"after is_scaled_realizable / is_borrow_realizable on the same instance, is_realizable() = {ok2} but an ordering {'exists' if want else 'does not exist'}")
        elif ok2:
            problem = replay_certificate(net, ids, flow, cert2)
            if problem:
                ctx.violation("certificate", {**wit, "after": "borrow search"}, f"certificate {cert2} after a borrow search: {problem}")
    ctx.case(("real", net, flow), nontrivial=sum(flow) >= 2,
             sample={"space": tag, "reactions": W.fmt_net(net), "flow": flow, "realizable": want, "certificate": cert}
             if (ctx.rng.random() < 0.002 or ctx.counters["realizable_true"] + ctx.counters["realizable_false"] <= 2) else None)


def replay_certificate(net, ids, flow, cert):
    if cert is None:
        return "no certificate returned"
    pos = {i: j for j, i in enumerate(ids)}
    m = {}
    fired = [0] * len(net)
    for step, tid in enumerate(cert):
        if tid not in pos:
            return f"unknown transition {tid!r}"
        j = pos[tid]
        fired[j] += 1
        for s, c in net[j][1]:
            m[s] = m.get(s, 0) - c
            if m[s] < 0:
                return f"step {step} ({tid}) drives {s} to {m[s]}"
        for s, c in net[j][2]:
            m[s] = m.get(s, 0) + c
    if fired != list(flow):
        return f"fires {fired} but the flow prescribes {list(flow)}"
    if any(v != 0 for v in m.values()):
        return f"final species counts {m} are not all zero"
    return None


def random_flow_case(rng):
    """networks with a chance of being realizable: build from closed cycles / supply chains."""
    k = rng.random()
    names = ["A", "B", "C", "D", "E", "X"]
    if k < 0.3:  # open chain with source and sink, maybe catalyst
        n = rng.randint(1, 3)
        chain = names[:n]
        net = [W.rxn({}, {chain[0]: 1})]
        for u, v in zip(chain, chain[1:]):
            a, b = {u: 1}, {v: 1}
            if rng.random() < 0.4:
                a["X"] = 1
                b["X"] = 1
            net.append(W.rxn(a, b))
        net.append(W.rxn({chain[-1]: 1}, {}))
        if rng.random() < 0.5:
            net.append(W.rxn({}, {"X": 1}))
            net.append(W.rxn({"X": 1}, {}))
        f = rng.randint(1, 3)
        flow = [f] * (n + 1) + ([rng.randint(0, 1)] * 2 if len(net) > n + 1 else [])
        if rng.random() < 0.3:
            j = rng.randrange(len(flow))
            flow[j] = max(0, flow[j] + rng.choice([-1, 1]))
    elif k < 0.42:  # threshold step: m copies are needed at once, the supply delivers fewer per round
        m = rng.choice([2, 2, 3])
        a = rng.randint(1, m)
        mid = rng.random() < 0.4
        net = [W.rxn({}, {"X": 1}), W.rxn({"X": m}, {"X": m, **({"B": 1} if mid else {})}), W.rxn({"X": 1}, {})]
        flow = [a, 1, a]
        if mid:
            net.append(W.rxn({"B": 1}, {}))
            flow.append(1)
        if rng.random() < 0.3:
            net.append(W.rxn({"A": 1}, {"C": 1}))
            flow.append(0)
    elif k < 0.5:  # two reactions over the same species with different coefficients, in a cycle that forces an order
        net = [W.rxn({}, {"A": 1}), W.rxn({"A": 1}, {"B": 1}), W.rxn({"A": 1}, {"B": 2}), W.rxn({"B": 2}, {"A": 1, "C": 1}),
               W.rxn({"B": 1}, {}), W.rxn({"C": 1}, {})]
        flow = [1, 1, 1, 1, 1, 1]
        if rng.random() < 0.5:
            net[1], net[2] = net[2], net[1]
        if rng.random() < 0.4:
            j = rng.randrange(len(flow))
            flow[j] = rng.choice([0, 1, 2])
        if rng.random() < 0.5:
            idx_ = list(range(len(net)))
            rng.shuffle(idx_)
            net = [net[i_] for i_ in idx_]
            flow = [flow[i_] for i_ in idx_]
    elif k < 0.55:  # autocatalysis needing a seed
        net = [W.rxn({"A": 1, "X": 1}, {"X": 2}), W.rxn({}, {"A": 1}), W.rxn({"X": 1}, {}),
               W.rxn({}, {"X": 1})]
        flow = [rng.randint(0, 3), 0, 0, rng.randint(0, 1)]
        flow[1] = flow[0]
        flow[2] = flow[0] + flow[3] if rng.random() < 0.8 else flow[0]
    else:
        net = W.random_network(rng, n_species=rng.randint(2, 5), n_rxn=rng.randint(2, 5), max_coeff=2,
                               p_empty=0.3, p_reverse=0.4, p_catalyst=0.3)
        flow = [rng.randint(0, 3) for _ in net]
    return net, flow


def run(ctx):
    install()
    rng = ctx.rng
    idx = 0
    spaces = [("3sp,<=2rxn,unit", (0, 1), 2)] if ctx.quick else [("3sp,<=3rxn,unit", (0, 1), 3)]
    if not ctx.quick:
        for net in W.enum_networks(("A", "B", "C", "D"), (0, 1), 2):
            idx += 1
            if ctx.mine(idx):
                check_structure(ctx, net, tag="4sp,<=2rxn,unit")
        ctx.exhaustive["4sp,<=2rxn,unit (all species subsets)"] = True
    for tag, coeffs, k in spaces:
        for net in W.enum_networks(("A", "B", "C"), coeffs, k):
            idx += 1
            if ctx.mine(idx):
                check_structure(ctx, net, tag=tag)
        ctx.exhaustive[tag + " (all species subsets)"] = True
    # 4 species, 4 reactions, each "2-3 reactants -> 1 product" (or mirrored): interlocking structures in which every
    # species lies in a small minimal siphon/trap while a larger minimal one exists as well
    sp4 = ("A", "B", "C", "D")
    fam = []
    for p_ in sp4:
        others = [x for x in sp4 if x != p_]
        for r_ in range(2, 4):
            for sub in itertools.combinations(others, r_):
                fam.append(W.rxn({x: 1 for x in sub}, {p_: 1}))
    tag4 = "4sp, 4 reactions of the form (2-3 reactants -> 1 product) and mirrored"
    for combo in itertools.combinations_with_replacement(range(len(fam)), 4):
        idx += 1
        if not ctx.mine(idx):
            continue
        if ctx.quick and (idx // ctx.nshards) % 4 != ctx.seed % 4:
            continue
        net = [fam[j] for j in combo]
        ctx.count("siphon_family_4x4_checked")
        check_structure(ctx, net, tag=tag4)
        if (idx // ctx.nshards) % 8 == 0:
            check_structure(ctx, [(r_, b_, a_) for r_, a_, b_ in net], tag=tag4)
    ctx.exhaustive[tag4 + (" (one quarter per seed)" if ctx.quick else "")] = not ctx.quick
    # hub-and-cycle family: a hub species H and a cycle X1..Xn with  X(i+1) + H >> Xi  and  X1 + ... + Xn >> H, plus
    # variants with one reaction dropped / one reactant dropped / mirrored (small siphons cover everything, a larger
    # minimal siphon exists; for n = 4, 5 there is a gap in the sizes of the minimal sets)
    fam_k = 0
    for ncyc in (3, 4, 5):
        xs = [f"X{i}" for i in range(1, ncyc + 1)]
        base = [W.rxn({xs[(i + 1) % ncyc]: 1, "H": 1}, {xs[i]: 1}) for i in range(ncyc)] + [W.rxn({x: 1 for x in xs}, {"H": 1})]
        variants = [base] + [base[:j] + base[j + 1:] for j in range(len(base))]
        for j in range(ncyc):
            v = list(base)
            v[j] = W.rxn({xs[(j + 1) % ncyc]: 1}, {xs[j]: 1})
            variants.append(v)
        for v in variants:
            for mirrored in (False, True):
                fam_k += 1
                if not ctx.mine(fam_k):
                    continue
                net = [(r_, b_, a_) for r_, a_, b_ in v] if mirrored else v
                ctx.count("hub_and_cycle_networks")
                check_structure(ctx, net, tag="hub-and-cycle family")
    n = 400 if ctx.quick else 8000
    for i in range(n):
        if ctx.out_of_time(0.5):
            ctx.count("random_truncated_by_budget")
            break
        net = W.random_network(rng, n_species=rng.randint(2, 6), n_rxn=rng.randint(1, 6),
                               max_coeff=rng.choice([1, 1, 2]), p_empty=rng.choice([0.0, 0.1]),
                               p_reverse=0.2, p_catalyst=0.2)
        check_structure(ctx, net, tag="random", via_graph=(i % 5 == 0))
        ctx.count("random_structure_networks")
    # firing rule on random markings (direct calls) + realizability
    from synkit.CRN.Petri.net import PetriNet
    for _ in range(100 if ctx.quick else 2000):
        pn = PetriNet()
        places = ["A", "B", "C"]
        pre = {p: rng.randint(1, 2) for p in rng.sample(places, rng.randint(0, 2))}
        post = {p: rng.randint(1, 2) for p in rng.sample(places, rng.randint(0, 2))}
        pn.add_transition("t", pre, post)
        mk = {p: rng.randint(0, 2) for p in rng.sample(places, rng.randint(0, 3))}
        if pn.enabled(mk, "t"):
            pn.fire(mk, "t")
        else:
            pn.fire(mk, "t")  # fire is total; the contract still pins marking - pre + post
        ctx.count("direct_firing_calls")
    flush_contracts(ctx, {"direct": True})
    n = 250 if ctx.quick else 6000
    for i in range(n):
        if ctx.out_of_time():
            ctx.count("random_truncated_by_budget")
            break
        net, flow = random_flow_case(rng)
        size = 1
        for f in flow:
            size *= f + 1
        if size > 10_000 or len(net) == 0:
            ctx.count("flows_skipped_too_large")
            continue
        check_realizability(ctx, net, flow, tag="random flow")


def replay(ctx, v):
    install()
    w = v["witness"]
    if "net" not in w:
        print("direct firing-rule witness:", w)
        ctx.violation(v["kind"], w, "see witness (direct PetriNet call)")
        return
    net = [(r, tuple(tuple(x) for x in a), tuple(tuple(x) for x in b)) for r, a, b in w["net"]]
    if "flow" in w:
        check_realizability(ctx, net, list(w["flow"]), tag="replay")
    else:
        check_structure(ctx, net, tag="replay", via_graph=bool(w.get("via_graph")))
