"""C18 — network canonical form is a complete invariant; automorphism data are exact.

Monitors: post-conditions on CRNCanonicalizer.summary (faithful relabelling, invariance under
renaming / reordering / id regeneration, separation of non-isomorphic views, exact automorphism
count and orbits vs an independent back-tracking enumerator), a stability post-condition hooked on
CRNCanonicalizer._refine, CRNAutomorphism vs the same enumerator, and an adversarial id() injected
into synkit.CRN.Topo.canon (legal allocation schedule)."""
from __future__ import annotations

import itertools

from oracles import brute as B
from workloads import crn as W

RULE = (
    "one case = one (network, view, key selection) canonicalised together with its renamed / reordered / "
    "re-id'd variants; distinct = distinct (network, configuration); non-trivial = view with >=3 nodes and "
    ">=2 arcs; separation is checked between all distinct canonical forms seen in a shard"
)
REQUIRED = ["canon_faithful_checked", "invariance_variants_checked", "automorphism_count_checked",
            "orbits_checked", "refine_postcondition_evals", "refine_multi_round", "crn_automorphism_checked",
            "separation_pairs_checked", "nontrivial_automorphism_groups", "views/bipartite", "views/species", "view_options_checked",
            "edit_history_checked", "edit_history/replace", "edit_history/remove_species_keep"]
ASSUMPTIONS = [
    "canonical graphs compared after projection on the selected node/edge attribute keys (unselected attributes such as labels, via sets legitimately differ)",
    "CRNAutomorphism compared on node keys only (its documented contract)",
    "adversarial id(): only objects whose refcount shows they die on return may share an id",
]
SHARDS = {"quick": 8, "thorough": 16}
BUDGET_S = {"quick": 60, "thorough": 600}

CONFIGS = [
    # (include_rule, include_stoich, node_keys, edge_keys)
    (True, True, ("kind",), ("role", "stoich")),
    (True, False, ("kind",), ("role", "stoich")),
    (False, True, ("kind",), ("role", "stoich")),
    (False, True, ("kind",), ("stoich_r", "stoich_p")),
]

_refine_stats = {"evals": 0, "multi": 0}
_refine_fail = []
_installed = [False]
_adv_stats = [None]


def install(seed):
    if _installed[0]:
        return
    from synkit.CRN.Topo import canon as cm
    from vmon import advid

    _adv_stats[0] = advid.install(cm, seed)
    orig = cm.CRNCanonicalizer._refine
    orig_sig = cm.CRNCanonicalizer._sig

    def _refine(self, G, part):
        calls = [0]
        out = orig(self, G, part)
        _refine_stats["evals"] += 1
        # stability: every cell is uniform under freshly computed signatures
        for cell in out:
            if len(cell) > 1:
                sigs = {orig_sig(self, G, v, out) for v in cell}
                if len(sigs) > 1:
                    _refine_fail.append(f"_refine returned an unstable partition {out}")
                    break
        flat_in = sorted(map(repr, (v for c in part for v in c)))
        flat_out = sorted(map(repr, (v for c in out for v in c)))
        if flat_in != flat_out:
            _refine_fail.append(f"_refine lost/duplicated nodes: {part} -> {out}")
        if len(out) > len(part) + 1:
            _refine_stats["multi"] += 1
        return out

    cm.CRNCanonicalizer._refine = _refine
    _installed[0] = True


def project(G, nkeys, ekeys):
    from synkit.CRN.Topo.canon import CRNCanonicalizer as C
    fz = C._freeze
    nodes = {n: tuple(repr(fz(d.get(k))) for k in nkeys) for n, d in G.nodes(data=True)}
    edges = {(u, v): tuple(repr(fz(d.get(k))) for k in ekeys) for u, v, d in G.edges(data=True)}
    return nodes, edges


def proj_key(p):
    return (tuple(sorted(p[0].items())), tuple(sorted(p[1].items())))


def variant(rng, net):
    """rename species, shuffle reaction order, regenerate ids."""
    sp = W.species_of(net)
    names = [f"{rng.choice('XYZQW')}{i}" for i in range(len(sp))]
    rng.shuffle(names)
    net2 = W.rename(net, dict(zip(sp, names)))
    order = list(range(len(net2)))
    rng.shuffle(order)
    ids = None
    if rng.random() < 0.5:
        pool = [f"e{j}" for j in range(len(net2) + 3)]
        rng.shuffle(pool)
        ids = pool[: len(net2)]
    return net2, order, ids


def canon_of(net, cfg, order=None, ids=None):
    from synkit.CRN.Topo.canon import CRNCanonicalizer

    H = W.build_hg(net, ids=ids, order=order)
    inc_rule, inc_st, nk, ek = cfg
    cz = CRNCanonicalizer(H, include_rule=inc_rule, include_stoich=inc_st, node_attr_keys=nk, edge_attr_keys=ek)
    return H, cz, cz.summary()


def check_case(ctx, net, cfg, tag, seen, perms=None):
    import networkx as nx

    rng = ctx.rng
    inc_rule, inc_st, nk, ek = cfg
    wit = {"net": net, "reactions": W.fmt_net(net), "cfg": cfg}
    n0 = len(_refine_fail)
    H, cz, s = canon_of(net, cfg)
    G = cz.G
    ctx.count("views/" + ("bipartite" if inc_rule else "species"))
    # the view the canonicaliser works on must be the documented view for these options
    from synkit.CRN.Hypergraph.conversion import hypergraph_to_bipartite, hypergraph_to_species_graph
    want_view = (hypergraph_to_bipartite(H, integer_ids=False, include_stoich=inc_st, species_prefix=None, reaction_prefix=None)
                 if inc_rule else hypergraph_to_species_graph(H))
    ctx.count("view_options_checked")
    if set(G.nodes) != set(want_view.nodes) or set(G.edges) != set(want_view.edges) or \
            any(G.nodes[n] != want_view.nodes[n] for n in G.nodes) or any(G.edges[e] != want_view.edges[e] for e in G.edges):
        ctx.violation("view-ignores-options", wit, f"the view built for include_rule={inc_rule}, include_stoich={inc_st} is not the documented view (e.g. carries stoichiometry although it was switched off)")
        return
    Gc = s["canon_graph"]
    perm = s["canonical_perm"]
    N = G.number_of_nodes()
    # (1) faithful relabelling onto 1..N
    ctx.count("canon_faithful_checked")
    if s["early_stop"]:
        ctx.violation("early-stop", wit, "search stopped early without limits")
    if sorted(Gc.nodes) != list(range(1, N + 1)) or sorted(map(repr, perm)) != sorted(map(repr, G.nodes)):
        ctx.violation("canon-not-bijective", wit, f"canonical nodes {sorted(Gc.nodes)} perm {perm} for view nodes {list(G.nodes)}")
        return
    mp = {v: i + 1 for i, v in enumerate(perm)}
    ok = Gc.number_of_edges() == G.number_of_edges()
    for v, d in G.nodes(data=True):
        ok = ok and Gc.nodes[mp[v]] == d
    for u, v, d in G.edges(data=True):
        ok = ok and Gc.has_edge(mp[u], mp[v]) and Gc[mp[u]][mp[v]] == d
    if not ok:
        ctx.violation("canon-not-isomorphic", wit, "canonical graph is not the view relabelled by canonical_perm with all attributes")
        return
    P = project(Gc, nk, ek)
    # (4) automorphisms of the view on the selected keys
    fz = type(cz)._freeze
    node_ok = lambda a, b: all(fz(a.get(k)) == fz(b.get(k)) for k in nk)
    edge_ok = lambda a, b: all(fz(a.get(k)) == fz(b.get(k)) for k in ek)
    big_family = 9 < N <= 20 and tag.startswith("family:")
    if N <= 9 or big_family:
        if big_family:
            # larger symmetric families: networkx VF2 on the view (node and edge labels on the selected keys) as reference
            from networkx.algorithms.isomorphism import DiGraphMatcher, GraphMatcher
            MM = DiGraphMatcher if G.is_directed() else GraphMatcher
            autos = list(MM(G, G, node_match=node_ok, edge_match=edge_ok).isomorphisms_iter())
            ctx.count("vf2_reference_families")
        else:
            autos = B.automorphisms(G, node_ok, edge_ok)
        ctx.count("automorphism_count_checked")
        if len(autos) > 1:
            ctx.count("nontrivial_automorphism_groups")
        if s["automorphism_count"] != len(autos):
            ctx.violation("automorphism-count", wit, f"automorphism_count={s['automorphism_count']} but the view has {len(autos)} label-preserving self-maps")
        want_orb = B.orbits_from(list(G.nodes), autos)
        got_orb = {frozenset(o) for o in s["orbits"]}
        ctx.count("orbits_checked")
        if got_orb != want_orb:
            ctx.violation("orbits", wit, f"orbits {sorted(map(sorted, got_orb), key=repr)} != exact {sorted(map(sorted, want_orb), key=repr)}")
        # every reported mapping is an automorphism
        for m in s["mappings"][:50]:
            if not is_auto(G, m, node_ok, edge_ok):
                ctx.violation("mapping-not-automorphism", wit, f"reported mapping {m} is not an automorphism")
                break
        # CRNAutomorphism (node keys only)
        from synkit.CRN.Topo.automorphism import CRNAutomorphism
        ca = CRNAutomorphism(H, include_rule=inc_rule, include_stoich=inc_st, node_attr_keys=nk)
        cs = ca.summary(max_count=10**6, timeout_sec=None)
        autos2 = B.automorphisms(ca.G, lambda a, b: all(a.get(k) == b.get(k) for k in nk), lambda a, b: True)
        ctx.count("crn_automorphism_checked")
        if cs["automorphism_count"] != len(autos2):
            ctx.violation("crnautomorphism-count", wit, f"CRNAutomorphism count {cs['automorphism_count']} != {len(autos2)}")
        elif {frozenset(o) for o in cs["orbits"]} != B.orbits_from(list(ca.G.nodes), autos2):
            ctx.violation("crnautomorphism-orbits", wit, f"CRNAutomorphism orbits {cs['orbits']}")
        else:
            # the dedicated accessor has to report the same orbits as the summary
            try:
                ob = ca.orbits(max_count=10**6, timeout_sec=None)
                ob = ob.get("orbits", ob) if isinstance(ob, dict) else ob
                same = {frozenset(o) for o in ob} == {frozenset(o) for o in cs["orbits"]}
            except Exception as e:
                same, ob = False, f"{type(e).__name__}: {e}"
            ctx.count("crn_automorphism_orbits_accessor_checked")
            if not same:
                ctx.violation("crnautomorphism-orbits", {**wit, "accessor": "orbits()"}, f"CRNAutomorphism.orbits() -> {ob}; summary orbits {cs['orbits']}")
    # (2) invariance under renaming / reordering / id regeneration
    variants = []
    if perms:
        sp = W.species_of(net)
        for pm in perms:
            variants.append((W.rename(net, dict(zip(sp, pm))), None, None))
    for _ in range(2):
        variants.append(variant(rng, net))
    for net2, order, ids in variants:
        _, cz2, s2 = canon_of(net2, cfg, order=order, ids=ids)
        P2 = project(s2["canon_graph"], nk, ek)
        ctx.count("invariance_variants_checked")
        if P2 != P:
            ctx.violation("canon-not-invariant", {**wit, "variant": W.fmt_net(net2), "order": order, "ids": ids},
                          f"renamed/reordered network gets a different canonical graph: {P2} vs {P}")
            break
        if s2["automorphism_count"] != s["automorphism_count"]:
            ctx.violation("automorphism-count-variant", {**wit, "variant": W.fmt_net(net2)}, "automorphism count differs for a renamed network")
    # (3) separation: different canonical forms must be non-isomorphic views
    key = (cfg, proj_key(P))
    inv = (cfg, N, G.number_of_edges(), tuple(sorted(d for _, d in G.degree())))
    bucket = seen.setdefault(inv, {})
    if key not in bucket:
        for k2, (G2, net2) in list(bucket.items())[:12]:
            ctx.count("separation_pairs_checked")
            if N <= 9 and B.is_isomorphic(G, G2, node_ok, edge_ok):
                ctx.violation("canon-not-complete", {**wit, "other": W.fmt_net(net2)},
                              f"isomorphic views received different canonical graphs")
                break
        bucket[key] = (G, net)
    if len(_refine_fail) > n0:
        ctx.violation("refine-unstable", wit, _refine_fail[-1])
        del _refine_fail[:]
    nontrivial = N >= 3 and G.number_of_edges() >= 2
    ctx.case(("c18", net, cfg), nontrivial=nontrivial,
             sample={"space": tag, "reactions": W.fmt_net(net), "view": "bipartite" if inc_rule else "species",
                     "include_stoich": inc_st, "edge_keys": ek, "automorphisms": s["automorphism_count"]}
             if (ctx.evaluations < 2 or ctx.rng.random() < 0.002) else None)


def _same_view(G, want):
    return set(G.nodes) == set(want.nodes) and set(G.edges) == set(want.edges) and \
        all(G.nodes[n] == want.nodes[n] for n in G.nodes) and all(G.edges[e] == want.edges[e] for e in G.edges)


def check_edit_history(ctx, net, cfg):
    """a network object is analysed, edited in place through the public editing calls, and analysed again: the second
    analysis has to be about the network as it is now (same answers as for an independent copy of it)."""
    from synkit.CRN.Topo.canon import CRNCanonicalizer
    from synkit.CRN.Topo.automorphism import CRNAutomorphism
    from synkit.CRN.Hypergraph.conversion import hypergraph_to_bipartite, hypergraph_to_species_graph

    rng = ctx.rng
    inc_rule, inc_st, nk, ek = cfg
    H = W.build_hg(net)

    def analyse(h):
        cz = CRNCanonicalizer(h, include_rule=inc_rule, include_stoich=inc_st, node_attr_keys=nk, edge_attr_keys=ek)
        sm = cz.summary()
        ca = CRNAutomorphism(h, include_rule=inc_rule, include_stoich=inc_st, node_attr_keys=nk)
        return cz, sm, ca.summary(max_count=10**6, timeout_sec=None)

    analyse(H)
    sp = W.species_of(net)
    rx = None
    edits = []
    for step in range(rng.randint(1, 3)):
        eids = sorted(H.edges)
        kind = rng.choice(["replace", "replace", "remove_species_keep", "remove_rxn", "add_rxn", "remove_species"])
        try:
            if kind == "replace" and eids:
                e = rng.choice(eids)
                old = H.get_edge(e)
                # same species, other coefficients / sides swapped: species count and reaction ids stay as they were
                a = {k: rng.randint(1, 3) for k in old.reactants.keys()}
                b = {k: rng.randint(1, 3) for k in old.products.keys()}
                if rng.random() < 0.4:
                    a, b = b, a
                if not a and not b:
                    continue
                rule = old.rule
                H.remove_rxn(e)
                H.add_rxn(a, b, rule=rule, edge_id=e)
            elif kind == "remove_species_keep" and len(H.species) > 1:
                H.remove_species(rng.choice(sorted(H.species)), prune_orphans=False)
            elif kind == "remove_species" and len(H.species) > 1:
                H.remove_species(rng.choice(sorted(H.species)))
            elif kind == "remove_rxn" and len(eids) > 1:
                H.remove_rxn(rng.choice(eids))
            elif kind == "add_rxn":
                a = {s_: rng.randint(1, 2) for s_ in rng.sample(sp, rng.randint(1, min(2, len(sp))))}
                b = {s_: rng.randint(1, 2) for s_ in rng.sample(sp, rng.randint(0, min(2, len(sp))))}
                H.add_rxn(a, b, rule="r")
            else:
                continue
        except (KeyError, ValueError):
            continue
        edits.append(kind)
        if not H.edges:
            return
        wit = {"net": net, "reactions": W.fmt_net(net), "cfg": cfg, "edits": list(edits)}
        cz, sm, cs = analyse(H)
        ctx.count("edit_history_checked")
        ctx.count("edit_history/" + kind)
        want_view = (hypergraph_to_bipartite(H, integer_ids=False, include_stoich=inc_st, species_prefix=None, reaction_prefix=None)
                     if inc_rule else hypergraph_to_species_graph(H))
        if not _same_view(cz.G, want_view):
            ctx.violation("stale-view-after-edit", wit, f"after in-place edits {edits} a new canonicaliser works on a view that is not the view of the network as it is now")
            return
        cz2, sm2, cs2 = analyse(H.copy())
        if project(sm["canon_graph"], nk, ek) != project(sm2["canon_graph"], nk, ek) or sm["automorphism_count"] != sm2["automorphism_count"] \
                or cs["automorphism_count"] != cs2["automorphism_count"]:
            ctx.violation("edited-network-differs-from-copy", wit, f"after in-place edits {edits} the analysis differs from the analysis of an independent copy of the same network")
            return


def is_auto(G, m, node_ok, edge_ok):
    if sorted(map(repr, m.keys())) != sorted(map(repr, G.nodes)) or sorted(map(repr, m.values())) != sorted(map(repr, G.nodes)):
        return False
    for v in G.nodes:
        if not node_ok(G.nodes[v], G.nodes[m[v]]):
            return False
    for u, v, d in G.edges(data=True):
        if not G.has_edge(m[u], m[v]) or not edge_ok(d, G[m[u]][m[v]]):
            return False
    return True


def symmetric_families():
    fam = {}
    for n in (3, 4, 5):
        names = [chr(65 + i) for i in range(n)]
        fam[f"ring{n}"] = [W.rxn({names[i]: 1}, {names[(i + 1) % n]: 1}) for i in range(n)]
        fam[f"ring{n}_bimol"] = [W.rxn({names[i]: 1, names[(i + 1) % n]: 1}, {names[(i + 2) % n]: 2}) for i in range(n)]
    fam["sym_bimol"] = [W.rxn({"A": 1, "B": 1}, {"C": 1}), W.rxn({"C": 1}, {"A": 1, "B": 1})]
    fam["two_identical"] = [W.rxn({"A": 1}, {"B": 1}), W.rxn({"A": 1}, {"B": 1})]
    fam["star"] = [W.rxn({"X": 1}, {s: 1}) for s in "ABCD"]
    fam["star_stoich"] = [W.rxn({"X": 1}, {s: c}) for s, c in zip("ABCD", (1, 1, 2, 2))]
    fam["k22"] = [W.rxn({a: 1}, {b: 1}) for a in "AB" for b in "CD"]
    # "X activates Y" reactions 2X + Y >> X + Y (both species on both sides, X with another coefficient on each side):
    # a triangle with every arc doubled next to a triangle with every arc in both directions - same node profiles,
    # not isomorphic
    arc = lambda x, y: W.rxn({x: 2, y: 1}, {x: 1, y: 1})   # noqa: E731
    fam["activation_triangles"] = [arc("P", "Q"), arc("P", "Q"), arc("Q", "R"), arc("Q", "R"), arc("R", "P"), arc("R", "P"),
                                   arc("U", "V"), arc("V", "U"), arc("V", "W"), arc("W", "V"), arc("W", "U"), arc("U", "W")]
    fam["activation_ring_and_pairs"] = [arc("A", "B"), arc("B", "C"), arc("C", "A"), arc("D", "E"), arc("E", "D"), arc("F", "G"), arc("G", "F")]
    fam["ring2_plus_ring3"] = [W.rxn({"A": 1}, {"B": 1}), W.rxn({"B": 1}, {"A": 1}), W.rxn({"C": 1}, {"D": 1}), W.rxn({"D": 1}, {"E": 1}), W.rxn({"E": 1}, {"C": 1})]
    return fam


def run(ctx):
    install(ctx.seed * 131 + ctx.shard)
    rng = ctx.rng
    seen = {}
    k_f = 0
    for name, net in symmetric_families().items():
        for cfg in CONFIGS:
            k_f += 1
            if ctx.mine(k_f):
                check_case(ctx, net, cfg, "family:" + name, seen)
    idx = 0
    coeffs = (0, 1) if ctx.quick else (0, 1, 2)
    tag = f"3sp,<=2rxn,coeff{coeffs},all species permutations"
    all_perms = [p for p in itertools.permutations(("A", "B", "C"))][1:]
    for net in W.enum_networks(("A", "B", "C"), coeffs, 2):
        idx += 1
        if not ctx.mine(idx):
            continue
        sp = W.species_of(net)
        perms = [p for p in itertools.permutations(sp)][1:] if ctx.quick or idx % 8 == 0 else [tuple(rng.sample(sp, len(sp)))]
        for cfg in CONFIGS:
            check_case(ctx, net, cfg, tag, seen, perms=perms)
    ctx.exhaustive[tag if ctx.quick else tag + " (all permutations for 1/8 of the networks, one random permutation otherwise)"] = True
    n = 150 if ctx.quick else 4000
    for i in range(n):
        if ctx.out_of_time():
            ctx.count("random_truncated_by_budget")
            break
        net = W.random_network(rng, n_species=rng.randint(2, 6), n_rxn=rng.randint(1, 5),
                               max_coeff=rng.choice([1, 1, 2, 3]), p_reverse=0.3, p_dup=0.15,
                               rules=["r", "k"][: rng.randint(1, 2)])
        for cfg in CONFIGS:
            check_case(ctx, net, cfg, "random", seen)
            check_edit_history(ctx, net, cfg)
        ctx.count("random_networks")
    ctx.count("refine_postcondition_evals", _refine_stats["evals"])
    ctx.count("refine_multi_round", _refine_stats["multi"])
    st = _adv_stats[0] or {}
    ctx.count("adversarial_id_calls", st.get("calls", 0))
    ctx.count("adversarial_id_collisions", st.get("collide", 0))


def replay(ctx, v):
    install(int(v.get("seed", 0)))
    w = v["witness"]
    net = [(r, tuple(tuple(x) for x in a), tuple(tuple(x) for x in b)) for r, a, b in w["net"]]
    c = w["cfg"]
    cfg = (bool(c[0]), bool(c[1]), tuple(c[2]), tuple(c[3]))
    check_case(ctx, net, cfg, "replay", {})
