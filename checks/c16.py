"""C16 — network views (bipartite, reaction strings, species graph) round-trip exactly.

Monitors: export contracts (the exported view is compared with the model network it
was produced from) and round-trip post-conditions on the real converters."""
from __future__ import annotations

import itertools

from workloads import crn as W

RULE = (
    "one case = one model network pushed through every invertible export/import pair of the "
    "real converters; distinct = distinct (network, ids, rules, mol labels); non-trivial = "
    ">=1 reaction with a coefficient >1, a shared species pair, a catalyst, or >=2 reactions"
)
REQUIRED = ["rt_bipartite_str_ids", "rt_bipartite_int_ids", "rt_strings", "rt_species_graph",
            "export_bipartite_checked", "export_species_checked", "from_str_checked",
            "shared_pair_networks", "multi_digit_coeff_networks", "networks_with_id_equal_to_species_label", "networks_with_formula_like_labels", "networks_with_line_notation_labels", "from_str_mixed_separator_spacing"]
ASSUMPTIONS = [
    "labels follow the documented grammar; rule labels contain no whitespace",
    "species-graph round trip only claimed for networks whose reactions all have both sides; rules not compared there",
    "bipartite import needs include_edge_id_attr=True and include_stoich=True (the flag combination that claims invertibility)",
]
SHARDS = {"quick": 8, "thorough": 16}
BUDGET_S = {"quick": 40, "thorough": 400}


def edges_of(H):
    return {eid: (e.rule, dict(e.reactants.items()), dict(e.products.items()))
            for eid, e in H.edges.items()}


def model_edges(net, ids):
    return {i: (r, dict(a), dict(b)) for i, (r, a, b) in zip(ids, net)}


def check_bipartite_export(G, net, ids, mol, integer_ids, sp_prefix, rx_prefix, with_mol):
    species = W.species_of(net)
    sp_nodes = {n: d for n, d in G.nodes(data=True) if d.get("kind") == "species"}
    rx_nodes = {n: d for n, d in G.nodes(data=True) if d.get("kind") == "reaction"}
    if len(sp_nodes) + len(rx_nodes) != G.number_of_nodes():
        return "node without kind"
    if sorted(d["label"] for d in sp_nodes.values()) != species:
        return f"species nodes {sorted(d['label'] for d in sp_nodes.values())} != {species}"
    if sorted(d.get("edge_id") for d in rx_nodes.values()) != sorted(ids):
        return f"reaction nodes {sorted(str(d.get('edge_id')) for d in rx_nodes.values())} != {sorted(ids)}"
    if integer_ids:
        if sorted(G.nodes) != list(range(1, len(species) + len(net) + 1)):
            return f"integer ids not 1..N+M: {sorted(G.nodes)}"
        if sorted(sp_nodes) != list(range(1, len(species) + 1)):
            return "species are not numbered 1..N"
    else:
        for n, d in sp_nodes.items():
            if n != f"{sp_prefix or ''}{d['label']}":
                return f"species node id {n!r} for label {d['label']!r}"
        for n, d in rx_nodes.items():
            if n != f"{rx_prefix or ''}{d['edge_id']}":
                return f"reaction node id {n!r} for {d['edge_id']!r}"
    lab = {n: d["label"] for n, d in sp_nodes.items()}
    by_id = {d["edge_id"]: n for n, d in rx_nodes.items()}
    want_arcs = set()
    for i, (rule, a, b) in zip(ids, net):
        rn = by_id[i]
        if rx_nodes[rn]["label"] != rule:
            return f"reaction {i} label {rx_nodes[rn]['label']!r} != rule {rule!r}"
        for s, c in a:
            want_arcs.add((s, i, "reactant", c))
        for s, c in b:
            want_arcs.add((s, i, "product", c))
    got = set()
    for u, v, d in G.edges(data=True):
        if u in sp_nodes and v in rx_nodes:
            got.add((lab[u], rx_nodes[v]["edge_id"], d.get("role"), d.get("stoich")))
            if d.get("role") != "reactant":
                return f"arc {u}->{v} role {d.get('role')}"
        elif u in rx_nodes and v in sp_nodes:
            got.add((lab[v], rx_nodes[u]["edge_id"], d.get("role"), d.get("stoich")))
            if d.get("role") != "product":
                return f"arc {u}->{v} role {d.get('role')}"
        else:
            return f"arc {u}->{v} joins two nodes of the same kind"
    if got != want_arcs:
        return f"arcs differ: missing {sorted(want_arcs - got)} extra {sorted(got - want_arcs)}"
    if with_mol:
        for n, d in sp_nodes.items():
            if d.get("mol") != mol.get(d["label"]):
                return f"mol of {d['label']}: {d.get('mol')!r} != {mol.get(d['label'])!r}"
    return None


def check_species_export(S, net, ids):
    species = W.species_of(net)
    if sorted(S.nodes) != species:
        return f"species graph nodes {sorted(S.nodes)} != {species}"
    want = {}
    for i, (rule, a, b) in zip(ids, net):
        for s, c in a:
            for t, k in b:
                w = want.setdefault((s, t), {"via": set(), "r": {}, "p": {}, "rules": set()})
                w["via"].add(i)
                w["r"][i] = c
                w["p"][i] = k
                w["rules"].add(rule)
    if set(S.edges) != set(want):
        return f"species arcs {sorted(S.edges)} != {sorted(want)}"
    for (s, t), w in want.items():
        d = S[s][t]
        if set(d.get("via", ())) != w["via"]:
            return f"via of {s}->{t}: {d.get('via')} != {w['via']}"
        if dict(d.get("stoich_r_map", {})) != w["r"] or dict(d.get("stoich_p_map", {})) != w["p"]:
            return f"per-reaction maps of {s}->{t}: {d.get('stoich_r_map')} {d.get('stoich_p_map')} != {w['r']} {w['p']}"
        if set(d.get("rules", ())) != w["rules"]:
            return f"rules of {s}->{t}"
    return None


def features(net):
    f = set()
    pairs = {}
    for r, a, b in net:
        if any(c > 1 for _, c in a + b):
            f.add("coeff>1")
        if any(c >= 10 for _, c in a + b):
            f.add("multi_digit")
        if set(s for s, _ in a) & set(s for s, _ in b):
            f.add("catalyst")
        if not a or not b:
            f.add("source_sink")
        for s, _ in a:
            for t, _ in b:
                pairs[(s, t)] = pairs.get((s, t), 0) + 1
    if any(v > 1 for v in pairs.values()):
        f.add("shared_pair")
    if len(set((a, b) for _, a, b in net)) < len(net):
        f.add("repeated_reaction")
    if len(net) >= 2:
        f.add("multi")
    return f


def check_network(ctx, net, ids=None, mol=None, tag=""):
    from synkit.CRN.Hypergraph import conversion as C
    from synkit.CRN.Hypergraph.hypergraph import CRNHyperGraph

    H = W.build_hg(net, ids=ids)
    real_ids = list(H.edges.keys())
    mol = mol or {}
    for s, m in mol.items():
        H.assign_mol(s, m)
    want = model_edges(net, real_ids)
    if edges_of(H) != want:
        ctx.violation("build", {"net": net, "ids": ids}, f"store {edges_of(H)} != model {want}")
        return
    feats = features(net)
    for f in feats:
        ctx.count("feature/" + f)
    if "shared_pair" in feats:
        ctx.count("shared_pair_networks")
    if "multi_digit" in feats:
        ctx.count("multi_digit_coeff_networks")
    wit = {"net": net, "ids": ids, "mol": mol}
    problems = []

    # ---- bipartite ---- #
    labels_vs_ids_clash = bool(set(W.species_of(net)) & set(real_ids))
    for integer_ids in (False, True):
        for spx, rpx in (("S:", "R:"), ("sp", "rx"), (None, None)):
            if spx is None and (integer_ids or labels_vs_ids_clash):
                continue
            for iso in (True, False):
                G = C.hypergraph_to_bipartite(
                    H, species_prefix=spx, reaction_prefix=rpx, integer_ids=integer_ids,
                    include_edge_id_attr=True, include_mol=True, include_isolated_species=iso)
                p = check_bipartite_export(G, net, real_ids, mol, integer_ids, spx, rpx, True)
                ctx.count("export_bipartite_checked")
                if p:
                    problems.append(("bipartite-export", f"integer_ids={integer_ids} prefix={spx}: {p}"))
                    continue
                H2 = C.bipartite_to_hypergraph(G)
                ctx.count("rt_bipartite_int_ids" if integer_ids else "rt_bipartite_str_ids")
                if edges_of(H2) != want:
                    problems.append(("bipartite-roundtrip", f"integer_ids={integer_ids} prefix={spx}: got {edges_of(H2)} want {want}"))
                elif dict(H2.species_to_mol) != mol:
                    problems.append(("bipartite-roundtrip-mol", f"mol {dict(H2.species_to_mol)} != {mol}"))
                elif sorted(H2.species) != W.species_of(net):
                    problems.append(("bipartite-roundtrip", f"species {sorted(H2.species)}"))
    # ---- strings ---- #
    for sort in (True, False):
        lines = C.hypergraph_to_rxn_strings(H, include_rule_suffix=True, sort=sort)
        H3 = C.rxns_to_hypergraph(lines)
        ctx.count("rt_strings")
        got = sorted((r, sorted(a.items()), sorted(b.items())) for r, a, b in edges_of(H3).values())
        exp = sorted((r, sorted(a.items()), sorted(b.items())) for r, a, b in want.values())
        if got != exp:
            problems.append(("strings-roundtrip", f"lines {lines}: got {got} want {exp}"))
    # parse_rxns through the (line, rule) and mapping forms
    lines_plain = C.hypergraph_to_rxn_strings(H, include_rule_suffix=False, sort=True)
    rules_sorted = [want[i][0] for i in sorted(want)]
    H4 = CRNHyperGraph().parse_rxns(lines_plain, rules=rules_sorted)
    got = sorted((r, sorted(a.items()), sorted(b.items())) for r, a, b in edges_of(H4).values())
    exp = sorted((r, sorted(a.items()), sorted(b.items())) for r, a, b in want.values())
    ctx.count("rt_strings_rules_arg")
    if got != exp:
        problems.append(("strings-roundtrip", f"parse_rxns(rules=...) {lines_plain} {rules_sorted}: got {got}"))
    # (line, rule) tuples and the mapping form (distinct lines only)
    H6 = CRNHyperGraph().parse_rxns(list(zip(lines_plain, rules_sorted)))
    got6 = sorted((r, sorted(a.items()), sorted(b.items())) for r, a, b in edges_of(H6).values())
    ctx.count("rt_strings_tuple_form")
    if got6 != exp:
        problems.append(("strings-roundtrip", f"parse_rxns([(line, rule)...]) {lines_plain}: got {got6}"))
    if len(set(lines_plain)) == len(lines_plain):
        H7 = CRNHyperGraph().parse_rxns(dict(zip(lines_plain, rules_sorted)))
        got7 = sorted((r, sorted(a.items()), sorted(b.items())) for r, a, b in edges_of(H7).values())
        if got7 != exp:
            problems.append(("strings-roundtrip", f"parse_rxns({{line: rule}}) {lines_plain}: got {got7}"))
    # suffix wins only when asked: explicit rule + suffix line
    lines_sfx = C.hypergraph_to_rxn_strings(H, include_rule_suffix=True, sort=True)
    H8 = CRNHyperGraph().parse_rxns(lines_sfx, rules=["zz"] * len(lines_sfx), prefer_suffix=True)
    got8 = sorted((r, sorted(a.items()), sorted(b.items())) for r, a, b in edges_of(H8).values())
    if got8 != exp:
        problems.append(("strings-roundtrip", f"parse_rxns(prefer_suffix=True) {lines_sfx}: got {got8}"))
    # lines without suffix read with a caller-chosen default rule (single-rule networks)
    if len({v[0] for v in want.values()}) == 1:
        the_rule = next(iter(want.values()))[0]
        H10 = CRNHyperGraph().parse_rxns(lines_plain, default_rule=the_rule)
        got10 = sorted((r, sorted(a.items()), sorted(b.items())) for r, a, b in edges_of(H10).values())
        ctx.count("rt_strings_default_rule")
        if got10 != exp:
            problems.append(("strings-roundtrip", f"parse_rxns(lines without suffix, default_rule={the_rule!r}) {lines_plain[:3]}: got {got10[:3]} want {exp[:3]}"))
    # explicit rules given for lines that also carry a "| rule=" suffix: the explicit rule wins, the suffix is not a species
    rules_x = ["X" + r_ for r_ in rules_sorted]
    H9 = CRNHyperGraph().parse_rxns(lines_sfx, rules=rules_x)
    got9 = sorted((r, sorted(a.items()), sorted(b.items())) for r, a, b in edges_of(H9).values())
    exp9 = sorted(("X" + r, sorted(a.items()), sorted(b.items())) for r, a, b in want.values())
    ctx.count("rt_strings_suffix_with_explicit_rules")
    if got9 != exp9:
        problems.append(("strings-roundtrip", f"parse_rxns(suffix lines, rules=[explicit...]) {lines_sfx[:3]}: got {got9[:3]} want {exp9[:3]}"))
    # ---- species graph ---- #
    if all(a and b for _, a, b in net):
        S = C.hypergraph_to_species_graph(H, include_mol=True)
        p = check_species_export(S, net, real_ids)
        ctx.count("export_species_checked")
        if p:
            problems.append(("species-export", p))
        else:
            H5 = C.species_graph_to_hypergraph(S)
            ctx.count("rt_species_graph")
            got = {k: (v[1], v[2]) for k, v in edges_of(H5).items()}
            exp = {k: (v[1], v[2]) for k, v in want.items()}
            if got != exp:
                problems.append(("species-roundtrip", f"got {got} want {exp}"))
            elif dict(H5.species_to_mol) != mol:
                problems.append(("species-roundtrip-mol", f"mol {dict(H5.species_to_mol)} != {mol}"))
    # inputs untouched
    if edges_of(H) != want:
        problems.append(("export-mutates", f"store changed by exporting: {edges_of(H)}"))
    ctx.case(("net", net, ids, sorted(mol.items())), nontrivial=bool(feats),
             sample={"space": tag, "reactions": W.fmt_net(net), "ids": real_ids, "mol": mol}
             if (ctx.evaluations < 2 or ctx.rng.random() < 0.0005) else None)
    for kind, msg in problems[:3]:
        ctx.violation(kind, wit, msg)


def check_from_str(ctx):
    from synkit.CRN.Hypergraph.rxn import RXNSide

    rng = ctx.rng
    names = ["A", "B", "Fe", "Cl2", "X_1", "glc6p", "H2O", "E1S", "E2P", "e5a"]
    for _ in range(300 if ctx.quick else 5000):
        k = rng.randint(0, 4)
        want = {}
        parts = []
        for s in rng.sample(names, k):
            c = rng.choice([1, 1, 2, 3, 10, 12, 120])
            want[s] = c
            style = rng.randint(0, 3)
            if c == 1 and rng.random() < 0.7:
                parts.append(s)
            elif style == 0:
                parts.append(f"{c}{s}")
            elif style == 1:
                parts.append(f"{c} {s}")
            elif style == 2:
                parts.append(f"{c}*{s}")
            else:
                parts.append(f"{c}  {s}")
        sep = rng.choice(["+", " + ", "  +  ", None])
        if sep is None and len(parts) >= 2:
            # the separators of one side need not be written uniformly ("2A+B + C")
            ctx.count("from_str_mixed_separator_spacing")
            txt = parts[0]
            for p_ in parts[1:]:
                txt += rng.choice(["+", " + ", " +", "+ "]) + p_
        else:
            txt = (sep or " + ").join(parts) if parts else rng.choice(["", "∅", "  "])
        got = RXNSide.from_str(txt).to_dict()
        ctx.count("from_str_checked")
        if got != want:
            ctx.violation("from_str", {"text": txt}, f"RXNSide.from_str({txt!r}) = {got} want {want}")


# rule labels as users write them: identifiers, EC numbers, SMARTS-like templates with atom lists (no blanks, no '|')
RULE_TOKENS = ["EC:1.1.1.1", "[C,N:1]=[O:2]", "k(fwd);rev", "a,b", "step-2/alt", "R#3", "x;y,z", "[C:1][O;H1:2]"]


def run(ctx):
    rng = ctx.rng
    check_from_str(ctx)
    idx = 0
    # exhaustive small spaces
    spaces = [("3sp,<=1rxn,coeff0-3", ("A", "B", "C"), (0, 1, 2, 3), 1),
              ("3sp,<=2rxn,coeff0-1", ("A", "B", "C"), (0, 1), 2)]
    if not ctx.quick:
        spaces += [("3sp,<=2rxn,coeff0-2", ("A", "B", "C"), (0, 1, 2), 2),
                   ("3sp,<=3rxn,coeff0-1", ("A", "B", "C"), (0, 1), 3),
                   ("4sp,<=2rxn,coeff0-1", ("A", "B", "C", "D"), (0, 1), 2)]
    for tag, sp, coeffs, k in spaces:
        for net in W.enum_networks(sp, coeffs, k):
            idx += 1
            if ctx.mine(idx):
                check_network(ctx, net, tag=tag)
        ctx.exhaustive[tag] = True
    # random sample of the 2-reaction {0,1,2} space in quick
    if ctx.quick:
        rx = W.all_reactions(("A", "B", "C"), (0, 1, 2))
        for _ in range(1500):
            check_network(ctx, [rng.choice(rx), rng.choice(rx)], tag="sample 3sp,2rxn,coeff0-2")
    # random larger networks with ids, rules, mol labels
    n = 400 if ctx.quick else 8000
    for _ in range(n):
        if ctx.out_of_time():
            ctx.count("random_truncated_by_budget")
            break
        net = W.random_network(rng, n_species=rng.randint(2, 8), n_rxn=rng.randint(1, 10),
                               max_coeff=rng.choice([1, 3, 3, 12, 120]),
                               rules=rng.choice([["r", "R1", "k_2", "hydrolysis"], RULE_TOKENS])[: rng.randint(1, 4)],
                               p_dup=0.15)
        if rng.random() < 0.35:
            # labels that are legal identifiers but look like numbers-with-exponents, formulas or prefixed names
            pool_l = ["E1S", "E2P", "e5a", "H2O", "CO2", "NAD", "X1", "R2D2", "E10", "spA", "A", "rxB", "S1", "E1"]
            if rng.random() < 0.5:
                # line-notation labels (start with a letter, then bond / branch symbols): legal labels that are not identifiers
                pool_l = ["CC=O", "C#N", "CC(=O)O", "C=C", "OC(=O)C", "N#N", "CC(C)=O", "O=C=O"[2:] + "x", "A", "H2O", "E1"]
                ctx.count("networks_with_line_notation_labels")
            names = W.species_of(net)
            mp = dict(zip(names, rng.sample(pool_l, len(names)))) if len(names) <= len(pool_l) else None
            if mp:
                net = W.rename(net, mp)
                ctx.count("networks_with_formula_like_labels")
        ids = None
        sp = W.species_of(net)
        if rng.random() < 0.5:
            pool = [f"e{j}" for j in range(len(net))] + [f"r_{j + 1}" for j in range(len(net))] + ["10", "a-b"]
            if rng.random() < 0.4:
                pool = sorted(set(pool) | set(sp))   # reactions named like a species (e.g. after their enzyme, which also takes part)
                ctx.count("networks_with_ids_from_species_names")
            ids = rng.sample(pool, len(net))
            if set(ids) & set(sp):
                ctx.count("networks_with_id_equal_to_species_label")
        mol = {s: rng.choice(["CCO", 17, "mol_" + s]) for s in sp if rng.random() < 0.4}
        check_network(ctx, net, ids=ids, mol=mol, tag="random")
        ctx.count("random_networks")


def replay(ctx, v):
    w = v["witness"]
    if "text" in w:
        from synkit.CRN.Hypergraph.rxn import RXNSide
        print("from_str ->", RXNSide.from_str(w["text"]).to_dict())
        ctx.violation("from_str", w, "replayed (inspect output)")
        return
    net = [(r, tuple(tuple(x) for x in a), tuple(tuple(x) for x in b)) for r, a, b in w["net"]]
    check_network(ctx, net, ids=w.get("ids"), mol=w.get("mol") or {}, tag="replay")
