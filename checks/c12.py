"""C12 — maximum common subgraph results are valid and of maximum size.

Oracle: brute-force maximum common *induced* subgraph size (subset enumeration + independent
back-tracking embedding search).  Every mapping returned by both MCSMatcher implementations
(synkit.Graph.Matcher.mcs_matcher and synkit.Graph.MTG.mcs_matcher) goes through a validity
contract (injective, labels, presence and order of every bond between mapped atoms both ways)."""
from __future__ import annotations

import itertools

import networkx as nx

from oracles import brute as B
from workloads import graphs as WG

RULE = (
    "one case = one ordered pair of labelled graphs run through both matcher implementations, maximum and "
    "non-maximum mode, all mapping directions and the automorphism-pruning option; distinct = distinct pair; "
    "non-trivial = optimum >= 2 and smaller than the smaller graph, or a disconnected graph is involved"
)
REQUIRED = ["pairs_checked", "mappings_validated", "maximum_checked", "direction_inverse_checked",
            "first_graph_larger", "optimum_smaller_than_pattern", "disconnected_pairs", "mtg_checked",
            "noninteger_order_pairs", "disconnected_optimum_beats_edge_bound", "mcs_mol_checked", "reused_matcher_checked",
            "option_pairs/prune_wc", "wildcard_pruning_flips_size_order", "pairs_with_omitted_default_attributes",
            "pairs_with_non_numeric_bond_labels", "pairs_with_element_free_selection", "pairs_with_two_bond_labels",
            "ring_path_pairs", "ring_path_pairs_with_lookalike_subpatterns"]
ASSUMPTIONS = [
    "common subgraph = common induced subgraph (bond present iff present, equal order), as the statement says",
    "edge orders compared numerically (float equality), node labels by the configured attributes",
]
SHARDS = {"quick": 8, "thorough": 16}
BUDGET_S = {"quick": 60, "thorough": 600}


def mk_ok(node_attrs):
    def node_ok(p, h):
        return all(p.get(k, "*" if k == "element" else 0) == h.get(k, "*" if k == "element" else 0) for k in node_attrs)

    def edge_ok(p, h):
        a, b = p.get("order"), h.get("order")
        if a is None and b is None:
            return True
        try:
            return float(a) == float(b)
        except (TypeError, ValueError):
            return a == b

    return node_ok, edge_ok


def optimum(G1, G2, node_ok, edge_ok):
    P, H = (G1, G2) if G1.number_of_nodes() <= G2.number_of_nodes() else (G2, G1)
    for k in range(P.number_of_nodes(), 0, -1):
        for nodes in itertools.combinations(list(P.nodes), k):
            if B.embeddings(P.subgraph(nodes), H, node_ok, edge_ok, induced=True, limit=1):
                return k
    return 0


def valid(m, P, H, node_ok, edge_ok):
    if len(set(m.values())) != len(m):
        return "not injective"
    for p, h in m.items():
        if p not in P or h not in H:
            return f"node {p}->{h} not in the graphs"
        if not node_ok(P.nodes[p], H.nodes[h]):
            return f"labels of {p}->{h} differ"
    ks = list(m)
    for i, u in enumerate(ks):
        for v in ks[i + 1:]:
            pe, he = P.has_edge(u, v), H.has_edge(m[u], m[v])
            if pe != he:
                return f"bond {u}-{v} present={pe} but image {m[u]}-{m[v]} present={he}"
            if pe and not edge_ok(P[u][v], H[m[u]][m[v]]):
                return f"bond {u}-{v} order {P[u][v].get('order')} mapped on order {H[m[u]][m[v]].get('order')}"
    return None


def check_pair(ctx, G1, G2, tag, key, node_attrs=("element",)):
    from synkit.Graph.Matcher.mcs_matcher import MCSMatcher as M1
    from synkit.Graph.MTG.mcs_matcher import MCSMatcher as M2

    rng = ctx.rng
    node_ok, edge_ok = mk_ok(node_attrs)
    wit = {"g1": WG.describe(G1), "g2": WG.describe(G2), "node_attrs": list(node_attrs)}
    d1, d2 = WG.gdigest(G1), WG.gdigest(G2)
    opt = optimum(G1, G2, node_ok, edge_ok)
    ctx.count("pairs_checked")
    if G1.number_of_nodes() > G2.number_of_nodes():
        ctx.count("first_graph_larger")
    if 0 < opt < min(G1.number_of_nodes(), G2.number_of_nodes()):
        ctx.count("optimum_smaller_than_pattern")
    disc = not (nx.is_connected(G1) and nx.is_connected(G2)) if min(len(G1), len(G2)) else False
    if disc:
        ctx.count("disconnected_pairs")
    if opt > min(G1.number_of_edges(), G2.number_of_edges()) + 1:
        ctx.count("disconnected_optimum_beats_edge_bound")

    def bad(kind, msg, **kw):
        ctx.violation(kind, {**wit, **kw}, msg)

    defaults = ["*" if k == "element" else 0 for k in node_attrs]
    for prune in (False, True):
        for mcs in (True, False):
            m = M1(node_attrs=list(node_attrs), node_defaults=defaults, prune_automorphisms=prune)
            m.find_common_subgraph(G1, G2, mcs=mcs)
            p2h = m.get_mappings("pattern_to_host")
            a = m.get_mappings("G1_to_G2")
            b = m.get_mappings("G2_to_G1")
            direction = m.mapping_direction
            # validity of every mapping, in G1->G2 orientation
            for mp in a:
                ctx.count("mappings_validated")
                why = valid(mp, G1, G2, node_ok, edge_ok)
                if why:
                    bad("invalid-mapping", f"Matcher.MCSMatcher(mcs={mcs}, prune={prune}): mapping {mp} is not a common induced subgraph: {why}", mcs=mcs, prune=prune)
                    break
            if mcs:
                ctx.count("maximum_checked")
                sizes = {len(x) for x in a}
                if (opt == 0 and a) or (opt > 0 and sizes != {opt}):
                    bad("not-maximum", f"Matcher.MCSMatcher(mcs=True, prune={prune}) returned sizes {sorted(sizes)}; the maximum common induced subgraph has {opt} atoms", prune=prune)
                if m.last_size != (opt if a else 0) and a:
                    bad("last-size", f"last_size={m.last_size} but mappings have size {sorted(sizes)}", prune=prune)
            ctx.count("direction_inverse_checked")
            if len(a) != len(b) or any({v: k for k, v in x.items()} != y for x, y in zip(a, b)):
                bad("directions-not-inverse", f"G1_to_G2 and G2_to_G1 are not mutually inverse (mcs={mcs}, prune={prune})", mcs=mcs, prune=prune)
            exp_dir = "G1_to_G2" if G1.number_of_nodes() <= G2.number_of_nodes() else "G2_to_G1"
            ref = a if direction == "G1_to_G2" else b
            if direction not in ("G1_to_G2", "G2_to_G1") or p2h != ref:
                bad("direction-inconsistent", f"pattern_to_host is not consistent with mapping_direction={direction}", mcs=mcs, prune=prune)
            if len({tuple(sorted(x.items())) for x in a}) != len(a):
                bad("duplicates", f"duplicate mappings (mcs={mcs}, prune={prune})", mcs=mcs, prune=prune)
    # MTG implementation: G1 pattern, G2 host, mappings G1 -> G2
    if list(node_attrs) == ["element"] or True:
        for mcs in (True, False):
            m = M2(node_label_names=list(node_attrs), node_label_defaults=defaults)
            m.find_common_subgraph(G1, G2, mcs=mcs)
            ms = m.get_mappings()
            ctx.count("mtg_checked")
            for mp in ms:
                ctx.count("mappings_validated")
                why = valid(mp, G1, G2, node_ok, edge_ok)
                if why:
                    bad("invalid-mapping", f"MTG.MCSMatcher(mcs={mcs}): mapping {mp} is not a common induced subgraph: {why}", mcs=mcs, impl="MTG")
                    break
            if mcs:
                sizes = {len(x) for x in ms}
                if (opt == 0 and ms) or (opt > 0 and sizes != {opt}):
                    bad("not-maximum", f"MTG.MCSMatcher(mcs=True) returned sizes {sorted(sizes)}; maximum is {opt}", impl="MTG")
    # molecule-level mode: whole connected components matched onto isomorphic components (G1 -> G2)
    for name, mk in (("Matcher", lambda: M1(node_attrs=list(node_attrs), node_defaults=defaults)),
                     ("MTG", lambda: M2(node_label_names=list(node_attrs), node_label_defaults=defaults))):
        m = mk()
        m.find_common_subgraph(G1, G2, mcs_mol=True)
        ms = m.get_mappings("G1_to_G2") if name == "Matcher" else m.get_mappings()
        ctx.count("mcs_mol_checked")
        for mp in ms:
            why = valid(mp, G1, G2, node_ok, edge_ok)
            if why:
                bad("invalid-mapping", f"{name}.MCSMatcher(mcs_mol=True): mapping {mp} is not a common induced subgraph: {why}", impl=name, mcs_mol=True)
                break
            comps = [set(c) for c in nx.connected_components(G1)]
            if any(0 < len(c & set(mp)) < len(c) for c in comps):
                bad("mcs-mol-partial-component", f"{name}.MCSMatcher(mcs_mol=True) maps only part of a connected component: {mp}", impl=name, mcs_mol=True)
                break
    # history: one matcher instance re-used on the same graph objects (mode switched, then a bond edited in place)
    if G2.number_of_edges():
        shared = M1(node_attrs=list(node_attrs), node_defaults=defaults)
        shared.find_common_subgraph(G1, G2, mcs=False)
        shared.find_common_subgraph(G1, G2, mcs=True)
        fresh = M1(node_attrs=list(node_attrs), node_defaults=defaults).find_common_subgraph(G1, G2, mcs=True)
        ctx.count("reused_matcher_checked")
        key = lambda ms: sorted(tuple(sorted(x.items())) for x in ms)
        if key(shared.get_mappings("G1_to_G2")) != key(fresh.get_mappings("G1_to_G2")):
            bad("matcher-depends-on-history", "a re-used matcher (mcs=False then mcs=True on the same graph objects) answers differently from a fresh one")
        G2e = G2  # edit in place, query again, restore
        u, v = next(iter(G2e.edges))
        old_o = G2e[u][v]["order"]
        G2e[u][v]["order"] = 3 if old_o != 3 else 1
        try:
            shared.find_common_subgraph(G1, G2e, mcs=True)
            fresh2 = M1(node_attrs=list(node_attrs), node_defaults=defaults).find_common_subgraph(G1, G2e, mcs=True)
            if key(shared.get_mappings("G1_to_G2")) != key(fresh2.get_mappings("G1_to_G2")):
                bad("matcher-depends-on-history", "a re-used matcher returns stale mappings after a bond order was edited in place")
        finally:
            G2e[u][v]["order"] = old_o
    if WG.gdigest(G1) != d1 or WG.gdigest(G2) != d2:
        bad("input-mutated", "matcher modified an input graph")
    nontrivial = (2 <= opt < min(len(G1), len(G2))) or disc
    ctx.case(key, nontrivial=nontrivial,
             sample={"space": tag, **wit, "maximum_common_induced_subgraph": opt}
             if (ctx.evaluations < 2 or rng.random() < 0.001) else None)


def check_options_pair(ctx, G1, G2, tag, key, node_attrs, prune_wc, edge_attrs=None):
    """Matcher.MCSMatcher on inputs with wildcard atoms (prune_wc on/off) or with default-valued attributes left out
    on some atoms.  With prune_wc=True the documented behaviour is: wildcard atoms are removed from both graphs
    (non-inplace) before the search, mappings refer to the original node ids."""
    from synkit.Graph.Matcher.mcs_matcher import MCSMatcher as M1

    node_ok, edge_ok = mk_ok(node_attrs)
    if edge_attrs:
        def edge_ok(p, h, _k=tuple(edge_attrs)):   # every selected bond label has to agree
            return all(p.get(k) == h.get(k) for k in _k)
    P1, P2 = G1, G2
    if prune_wc:
        P1 = G1.subgraph([n for n, d in G1.nodes(data=True) if d.get("element") != "*"]).copy()
        P2 = G2.subgraph([n for n, d in G2.nodes(data=True) if d.get("element") != "*"]).copy()
        if (G1.number_of_nodes() <= G2.number_of_nodes()) != (P1.number_of_nodes() <= P2.number_of_nodes()):
            ctx.count("wildcard_pruning_flips_size_order")
    wit = {"g1": WG.describe(G1), "g2": WG.describe(G2), "node_attrs": list(node_attrs), "prune_wc": prune_wc}
    if edge_attrs:
        wit["edge_attrs"] = list(edge_attrs)
        wit["edge_labels"] = [[[u, v, [d.get(k) for k in edge_attrs]] for u, v, d in g.edges(data=True)] for g in (G1, G2)]
    d1, d2 = WG.gdigest(G1), WG.gdigest(G2)
    opt = optimum(P1, P2, node_ok, edge_ok) if min(len(P1), len(P2)) else 0
    defaults = ["*" if k == "element" else 0 for k in node_attrs]
    ctx.count("option_pairs_checked")
    ctx.count("option_pairs/prune_wc" if prune_wc else "option_pairs/plain")
    for prune in (False, True):
        for mcs in (True, False):
            m = M1(node_attrs=list(node_attrs), node_defaults=defaults, prune_automorphisms=prune, prune_wc=prune_wc,
                   **({"edge_attrs": list(edge_attrs)} if edge_attrs else {}))
            m.find_common_subgraph(G1, G2, mcs=mcs)
            a = m.get_mappings("G1_to_G2")
            b = m.get_mappings("G2_to_G1")
            for mp in a:
                ctx.count("mappings_validated")
                why = valid(mp, P1, P2, node_ok, edge_ok)
                if why:
                    ctx.violation("invalid-mapping", {**wit, "mcs": mcs, "prune": prune},
                                  f"MCSMatcher(prune_wc={prune_wc}, mcs={mcs}, prune={prune}): G1_to_G2 mapping {mp} is not a common induced subgraph of the "
                                  f"{'wildcard-free parts of the ' if prune_wc else ''}inputs: {why}")
                    break
            for mp in b:
                why = valid(mp, P2, P1, node_ok, edge_ok)
                if why:
                    ctx.violation("invalid-mapping", {**wit, "mcs": mcs, "prune": prune}, f"MCSMatcher(prune_wc={prune_wc}): G2_to_G1 mapping {mp}: {why}")
                    break
            if mcs:
                ctx.count("maximum_checked")
                sizes = {len(x) for x in a}
                if (opt == 0 and a) or (opt > 0 and sizes != {opt}):
                    ctx.violation("not-maximum", {**wit, "prune": prune},
                                  f"MCSMatcher(prune_wc={prune_wc}, mcs=True, prune={prune}) returned sizes {sorted(sizes)}; the maximum has {opt} atoms")
            if len(a) != len(b) or any({v: k for k, v in x.items()} != y for x, y in zip(a, b)):
                ctx.violation("directions-not-inverse", {**wit, "mcs": mcs, "prune": prune}, "G1_to_G2 and G2_to_G1 are not mutually inverse")
    if WG.gdigest(G1) != d1 or WG.gdigest(G2) != d2:
        ctx.violation("input-mutated", wit, "matcher modified an input graph")
    ctx.case(key, nontrivial=opt >= 2, sample={"space": tag, **wit, "maximum": opt} if ctx.rng.random() < 0.005 else None)


def with_wildcards(G, rng, p):
    H = G.copy()
    for n, d in H.nodes(data=True):
        if rng.random() < p:
            d["element"] = "*"
    return H


def without_default_attrs(G, rng, p=0.5):
    H = G.copy()
    k = 0
    for _, d in H.nodes(data=True):
        if d.get("charge") == 0 and rng.random() < p:
            del d["charge"]
            k += 1
    return H, k


def lookalike_subpatterns(P, k):
    """does P have two k-node subsets inducing non-isomorphic sub-patterns that agree on every cheap invariant
    (labelled degree sequence, bond-order multiset)?  Such twins defeat caches keyed by an incomplete fingerprint."""
    seen = {}
    nm = lambda a, b: a.get("element") == b.get("element")
    em = lambda a, b: a.get("order") == b.get("order")
    for nodes in itertools.combinations(list(P.nodes), k):
        S = P.subgraph(nodes)
        sig = (tuple(sorted((S.nodes[n].get("element"), S.degree(n)) for n in S)),
               tuple(sorted(repr(d.get("order")) for _, _, d in S.edges(data=True))))
        for other in seen.setdefault(sig, []):
            if not nx.is_isomorphic(S, other, node_match=nm, edge_match=em):
                return True
        seen[sig].append(S)
    return False


def ring_path_pairs(ctx, rng, n_pairs):
    """small rings (4-6 atoms, two or three elements, two bond orders) against paths cut out of the ring and altered
    at the ends: the optimum is a proper sub-path, and the ring has many same-size sub-patterns that differ only in
    how labels and orders are arranged.  Every pair is presented in several numberings (search order matters)."""
    space = "rings of 4-6 atoms vs paths (sub-path of the ring with altered ends / random paths), several numberings"
    for t in range(n_pairs):
        n = rng.choice([4, 4, 4, 5, 5, 6])
        els = [rng.choice(["C", "C", "O", "N"]) for _ in range(n)]
        ords = [rng.choice([1, 2]) for _ in range(n)]
        R = WG.to_nx(([(e, 0) for e in els], [((i, (i + 1) % n), ords[i]) for i in range(n)]))
        if rng.random() < 0.7:
            # path = k consecutive ring atoms, then foreign atoms on one or both ends
            k = rng.randint(2, n - 1)
            s = rng.randrange(n)
            labs = [els[(s + i) % n] for i in range(k)]
            eo = [ords[(s + i) % n] for i in range(k - 1)]
            if rng.random() < 0.5:
                labs, eo = labs[::-1], eo[::-1]
            for _ in range(rng.randint(1, 2)):
                if rng.random() < 0.5:
                    labs, eo = [rng.choice(["N", "S", "O"])] + labs, [rng.choice([1, 2])] + eo
                else:
                    labs, eo = labs + [rng.choice(["N", "S", "O"])], eo + [rng.choice([1, 2])]
        else:
            m = rng.randint(3, 6)
            labs = [rng.choice(["C", "C", "O", "N"]) for _ in range(m)]
            eo = [rng.choice([1, 2]) for _ in range(m - 1)]
        Pth = WG.to_nx(([(e, 0) for e in labs], [((i, i + 1), eo[i]) for i in range(len(labs) - 1)]))
        look = any(lookalike_subpatterns(R, k) for k in range(2, n))
        for rep in range(3):
            A, _ = WG.scramble(R, rng) if rep else (R, None)
            Bg, _ = WG.scramble(Pth, rng) if rep else (Pth, None)
            if rep == 2:
                A, Bg = Bg, A
            ctx.count("ring_path_pairs")
            if look:
                ctx.count("ring_path_pairs_with_lookalike_subpatterns")
            check_pair(ctx, A, Bg, space, ("ringpath", WG.describe(A), WG.describe(Bg)))


def run(ctx):
    rng = ctx.rng
    ring_path_pairs(ctx, rng, 25 if ctx.quick else 400)
    nmax = 3 if ctx.quick else 4
    reps = [r for n in range(1, nmax + 1) for r in WG.classes(n, WG.RED_NODE, [1, 2])]
    space = f"all ordered pairs of class representatives <= {nmax} nodes (2 elements x orders{{1,2}})"
    idx = 0
    for i, ra in enumerate(reps):
        for j, rb in enumerate(reps):
            idx += 1
            if not ctx.mine(idx):
                continue
            if not ctx.quick and len(ra[0]) == 4 and len(rb[0]) == 4 and (idx // ctx.nshards) % 3 != ctx.seed % 3:
                continue
            A, _ = WG.scramble(WG.to_nx(ra), rng)
            Bg, _ = WG.scramble(WG.to_nx(rb), rng)
            check_pair(ctx, A, Bg, space, ("cls", i, j))
    ctx.exhaustive[space + ("" if ctx.quick else " (4x4 pairs: one third per seed)")] = ctx.quick
    n = 200 if ctx.quick else 4000
    for t in range(n):
        if ctx.out_of_time():
            ctx.count("random_truncated_by_budget")
            break
        comps = rng.choice([1, 1, 2, 3])
        A = WG.random_mol(rng, rng.randint(2, 6), components=comps, p_charge=0.15,
                          orders=rng.choice([(1, 1, 2), (1, 1.5, 2), (1, 2, 2.5)]), p_ring=0.3)
        k = rng.random()
        if k < 0.3:
            Bg, _ = WG.scramble(A, rng)
        elif k < 0.7:
            # planted common part + extra atoms
            Bg = A.copy()
            for _ in range(rng.randint(0, 2)):
                if Bg.number_of_nodes() > 1:
                    Bg.remove_node(rng.choice(list(Bg.nodes)))
            base = max(Bg.nodes, default=0) + 10
            for x in range(rng.randint(0, 2)):
                Bg.add_node(base + x, element=rng.choice(["C", "N", "O"]), hcount=0, charge=0, aromatic=False, atom_map=base + x, neighbors=[])
                if Bg.number_of_nodes() > 1 and rng.random() < 0.7:
                    Bg.add_edge(base + x, rng.choice([v for v in Bg.nodes if v != base + x]), order=rng.choice([1, 2]), standard_order=0.0)
            if rng.random() < 0.4 and Bg.number_of_edges():
                u, v = rng.choice(list(Bg.edges))
                Bg[u][v]["order"] = rng.choice([1, 1.5, 2, 2.5])
            Bg, _ = WG.scramble(Bg, rng)
        else:
            Bg = WG.random_mol(rng, rng.randint(2, 7), components=rng.choice([1, 2]), p_charge=0.15,
                               orders=rng.choice([(1, 1, 2), (1, 1.5, 2)]))
        if rng.random() < 0.5:
            A, Bg = Bg, A
        if any(float(d["order"]) != int(float(d["order"])) for g in (A, Bg) for _, _, d in g.edges(data=True)):
            ctx.count("noninteger_order_pairs")
        attrs = ("element",) if t % 3 else ("element", "charge")
        if t % 7 == 3:
            attrs = rng.choice([("charge",), ("hcount", "charge")])   # selections without the element
            ctx.count("pairs_with_element_free_selection")
        check_pair(ctx, A, Bg, "random pairs (planted parts, copies, disconnected, aromatic orders)",
                   ("rnd", WG.describe(A), WG.describe(Bg), attrs), node_attrs=attrs)
        if t % 4 == 1:
            # bond labels that are not numbers (ITS-style order pairs, string bond types): equality is all that is needed
            style = rng.choice(["pair", "string"])
            def relabel(g):
                h = g.copy()
                for _, _, d in h.edges(data=True):
                    o = d.get("order")
                    d["order"] = (float(o), 0.0) if style == "pair" else {1: "single", 1.5: "aromatic", 2: "double", 2.5: "x", 3: "triple"}.get(o, str(o))
                return h
            ctx.count("pairs_with_non_numeric_bond_labels")
            check_pair(ctx, relabel(A), relabel(Bg), "random pairs with non-numeric bond labels (order pairs / strings)",
                       ("nonnum", style, repr(WG.describe(A)), repr(WG.describe(Bg)), attrs), node_attrs=attrs)
        if t % 5 == 2:
            # two selected bond labels: a non-numeric tag first, the numeric order second (both have to be preserved)
            def tagged(g):
                h = g.copy()
                for _, _, d in h.edges(data=True):
                    d["tag"] = rng.choice(["ring", "chain"]) if rng.random() < 0.3 else "chain"
                return h
            ctx.count("pairs_with_two_bond_labels")
            check_options_pair(ctx, tagged(A), tagged(Bg), "random pairs with two selected bond labels (string tag, order)",
                               ("twolab", repr(WG.describe(A)), repr(WG.describe(Bg)), t), attrs, False, edge_attrs=("tag", "order"))
        if t % 2 == 0:
            # wildcard atoms (more of them in the smaller graph, so that pruning can flip which graph is the pattern)
            small_first = A.number_of_nodes() <= Bg.number_of_nodes()
            Aw = with_wildcards(A, rng, 0.15 if small_first else 0.45)
            Bw = with_wildcards(Bg, rng, 0.45 if small_first else 0.15)
            for pw in (True, False):
                check_options_pair(ctx, Aw, Bw, "random pairs with wildcard atoms", ("wc", repr(WG.describe(Aw)), repr(WG.describe(Bw)), attrs, pw), attrs, pw)
        else:
            # default-valued charge written on some atoms and left out on others (same input by the matcher's defaults)
            As, ka = without_default_attrs(A, rng, rng.choice([0.3, 1.0]))
            Bs, kb = without_default_attrs(Bg, rng, rng.choice([0.0, 0.3]))
            if ka + kb:
                ctx.count("pairs_with_omitted_default_attributes")
                check_options_pair(ctx, As, Bs, "random pairs with default-valued attributes omitted on some atoms",
                                   ("sparse", repr(WG.describe(As)), repr(WG.describe(Bs))), ("element", "charge"), False)


def replay(ctx, v):
    w = v["witness"]
    if "prune_wc" in w and w.get("edge_attrs"):
        gs = [WG.from_desc(w["g1"]), WG.from_desc(w["g2"])]
        for g, labs in zip(gs, w["edge_labels"]):
            for u, v2, vals in labs:
                for k, val in zip(w["edge_attrs"], vals):
                    g[u][v2][k] = val
        return check_options_pair(ctx, gs[0], gs[1], "replay", ("replay",), tuple(w["node_attrs"]), bool(w["prune_wc"]), edge_attrs=tuple(w["edge_attrs"]))
    if "prune_wc" in w:
        return check_options_pair(ctx, WG.from_desc(w["g1"]), WG.from_desc(w["g2"]), "replay", ("replay",), tuple(w["node_attrs"]), bool(w["prune_wc"]))
    check_pair(ctx, WG.from_desc(w["g1"]), WG.from_desc(w["g2"]), "replay", ("replay",), node_attrs=tuple(w.get("node_attrs") or ("element",)))
