"""C19 — complexes, linkage classes, weak reversibility and deficiency follow their definitions.

Oracle: straight from the definitions on the plain-Python network model, with an
exact Fraction rank.  The real DeficiencyAnalyzer runs on the real CRNHyperGraph
(and, for a sub-sample, on its exported bipartite DiGraph)."""
from __future__ import annotations

from oracles import exactla as X
from workloads import crn as W

RULE = (
    "one case = one model network analysed by DeficiencyAnalyzer and by the definition-level oracle; "
    "distinct = distinct reaction list; non-trivial = >=2 distinct complexes and >=1 reaction with a "
    "non-zero net change"
)
REQUIRED = ["summary_checked", "linkage_deficiencies_checked", "weakly_reversible_true",
            "weakly_reversible_false", "deficiency_positive", "multi_linkage_networks",
            "zero_complex_networks", "textbook_checked", "graph_tagged_by_bipartite_only", "graph_tagged_by_kind_only",
            "alt_call_order_checked", "analyzer_reused_after_edit_checked", "scc_chain_networks"]
ASSUMPTIONS = [
    "per-class deficiency compared with the docstring definition n_l - 1 - s_l (exact rank of the class's reaction vectors)",
    "linkage-class list compared as a multiset (class order is not part of the statement)",
]
SHARDS = {"quick": 8, "thorough": 16}
BUDGET_S = {"quick": 40, "thorough": 480}

TEXTBOOK_DEFICIENCY = {"rev_A+B<->C": 0, "edelstein": 1, "futile": 1, "cycle3": 0, "chain": 0}


def oracle(net):
    sp = W.species_of(net)
    ix = {s: i for i, s in enumerate(sp)}

    def vec(side):
        v = [0] * len(sp)
        for s, c in side:
            v[ix[s]] += c
        return tuple(v)

    complexes = []
    cid = {}
    arcs = []
    for _, a, b in net:
        for v in (vec(a), vec(b)):
            if v not in cid:
                cid[v] = len(complexes)
                complexes.append(v)
        arcs.append((cid[vec(a)], cid[vec(b)]))
    n = len(complexes)
    # components (union-find)
    par = list(range(n))

    def find(x):
        while par[x] != x:
            par[x] = par[par[x]]
            x = par[x]
        return x

    for u, v in arcs:
        par[find(u)] = find(v)
    classes = {}
    for i in range(n):
        classes.setdefault(find(i), []).append(i)
    # strong connectivity per class by reachability
    adj = {i: set() for i in range(n)}
    for u, v in arcs:
        adj[u].add(v)

    def reach(s):
        seen = {s}
        st = [s]
        while st:
            x = st.pop()
            for y in adj[x]:
                if y not in seen:
                    seen.add(y)
                    st.append(y)
        return seen

    wr = all(all(set(members) <= reach(m) for m in members) for members in classes.values())
    _, S = W.exact_S(net, sp)
    rank = X.rank(S)
    lc_defs = []
    for members in classes.values():
        ms = set(members)
        diffs = [[b - a for a, b in zip(complexes[u], complexes[v])] for u, v in arcs if u in ms]
        diffs = [d for d in diffs if any(d)]
        s_l = X.rank(diffs) if diffs else 0
        lc_defs.append(len(members) - 1 - s_l)
    return {
        "n_species": len(sp), "n_reactions": len(net), "n_complexes": n,
        "n_linkage_classes": len(classes), "stoich_rank": rank,
        "deficiency": n - len(classes) - rank, "weakly_reversible": wr,
        "linkage_deficiencies": sorted(lc_defs),
        "has_zero_complex": any(not any(c) for c in complexes),
    }


def check_network(ctx, net, tag="", via_graph=False, pinned=None):
    from synkit.CRN.Props.deficiency import DeficiencyAnalyzer

    H = W.build_hg(net)
    obj = H
    if via_graph:
        from synkit.CRN.Hypergraph.conversion import hypergraph_to_bipartite
        obj = hypergraph_to_bipartite(H, integer_ids=False)
        ctx.count("via_exported_graph")
        # the documented graph conventions accept either tag: strip one of them on a rotating basis
        mode = (len(net) + sum(len(a) + len(b) for _, a, b in net)) % 3
        if mode:
            drop = "bipartite" if mode == 1 else "kind"
            for _, dd in obj.nodes(data=True):
                dd.pop(drop, None)
            ctx.count("graph_tagged_by_" + ("kind" if mode == 1 else "bipartite") + "_only")
    o = oracle(net)
    wit = {"net": net, "reactions": W.fmt_net(net), "via_graph": via_graph}
    if pinned is not None:
        ctx.count("textbook_checked")
        if o["deficiency"] != pinned:
            raise AssertionError(f"oracle self-test failed on textbook value: {o} != {pinned}")
    an = DeficiencyAnalyzer(obj).compute_crn_deficiency()
    d = an.as_dict()
    sm = an.summary
    ctx.count("summary_checked")
    for key in ("n_species", "n_reactions", "n_complexes", "n_linkage_classes", "stoich_rank",
                "deficiency", "weakly_reversible"):
        got = getattr(sm, key)
        if got != o[key] or d.get(key) != o[key]:
            ctx.violation(key, wit, f"{key}: analyzer {got!r} (as_dict {d.get(key)!r}) != definition {o[key]!r}; oracle {o}")
    if sm.deficiency < 0:
        ctx.violation("negative-deficiency", wit, f"deficiency {sm.deficiency} < 0")
    ld = an.linkage_deficiencies
    ctx.count("linkage_deficiencies_checked")
    if ld is None or len(ld) != o["n_linkage_classes"]:
        ctx.violation("linkage-deficiencies", wit, f"linkage deficiencies {ld} for {o['n_linkage_classes']} classes")
    else:
        if sum(ld) > o["deficiency"]:
            ctx.violation("linkage-deficiency-sum", wit, f"linkage deficiencies {ld} sum to more than the deficiency {o['deficiency']}")
        elif sorted(ld) != o["linkage_deficiencies"] or d.get("linkage_deficiencies") != ld:
            ctx.violation("linkage-deficiency-values", wit, f"linkage deficiencies {sorted(ld)} != definition {o['linkage_deficiencies']}")
    # other legal call orders on one analyzer (the diagnostic between the two structural steps; summary computed twice)
    if not via_graph and len(net) >= 2 and (len(net) + o["n_complexes"]) % 2 == 0:
        an2 = DeficiencyAnalyzer(H)
        try:
            an2.compute_summary()
            an2.nondegeneracy_test()
            an2.compute_summary() if len(net) % 3 == 0 else None
            an2.compute_linkage_deficiencies()
            ld2, sm2 = an2.linkage_deficiencies, an2.summary
        except Exception as e:
            ld2, sm2 = None, None
            ctx.count("alt_call_order_raised/" + type(e).__name__)
        if sm2 is not None:
            ctx.count("alt_call_order_checked")
            if ld2 is None or sorted(ld2) != o["linkage_deficiencies"] or sm2.deficiency != o["deficiency"] or sm2.n_complexes != o["n_complexes"]:
                ctx.violation("depends-on-call-order", wit,
                              f"compute_summary -> nondegeneracy_test -> compute_linkage_deficiencies gives linkage deficiencies {ld2} / deficiency {sm2.deficiency}; "
                              f"definition {o['linkage_deficiencies']} / {o['deficiency']}")
        # the same analyzer after the network was edited in place (reaction replaced under its id: sizes unchanged)
        eid = sorted(H.edges)[ctx.rng.randrange(len(H.edges))]
        pos = list(H.edges).index(eid)
        rule_, a_, b_ = net[pos]
        a2 = tuple((s_, c_ + 1) for s_, c_ in a_) if a_ else (("A", 1),)
        if dict(a2) or dict(b_):
            an3 = DeficiencyAnalyzer(H).compute_summary().compute_linkage_deficiencies()
            H.remove_rxn(eid)
            H.add_rxn(dict(a2), dict(b_), rule=rule_, edge_id=eid)
            # the oracle reads the network back from the store as it is now
            o2 = oracle([((e_.rule), tuple(sorted(e_.reactants.items())), tuple(sorted(e_.products.items()))) for e_ in H.edges.values()])
            an3.compute_summary()
            # results derived from the previous summary must not survive the recomputation as if they were current
            stale = an3.linkage_deficiencies
            if stale is not None and (sorted(stale) != o2["linkage_deficiencies"] or sum(stale) > o2["deficiency"]):
                ctx.violation("stale-after-edit", {**wit, "edited": eid, "new_reactants": a2},
                              f"after compute_summary() on the edited network the analyzer still reports the old linkage deficiencies {stale} "
                              f"next to deficiency {an3.summary.deficiency} (now: {o2['linkage_deficiencies']})")
            an3.compute_linkage_deficiencies()
            ctx.count("analyzer_reused_after_edit_checked")
            sm3 = an3.summary
            bad = [k for k in ("n_species", "n_reactions", "n_complexes", "n_linkage_classes", "stoich_rank", "deficiency", "weakly_reversible")
                   if getattr(sm3, k) != o2[k]]
            if bad or sorted(an3.linkage_deficiencies or []) != o2["linkage_deficiencies"]:
                ctx.violation("stale-after-edit", {**wit, "edited": eid, "new_reactants": a2},
                              f"the same analyzer, recomputed after reaction {eid} was replaced in place, reports {[(k, getattr(sm3, k)) for k in bad]} "
                              f"/ linkage deficiencies {an3.linkage_deficiencies}; the network as it is now has {[(k, o2[k]) for k in bad]} / {o2['linkage_deficiencies']}")
    ctx.count("weakly_reversible_true" if o["weakly_reversible"] else "weakly_reversible_false")
    if o["deficiency"] > 0:
        ctx.count("deficiency_positive")
    if o["n_linkage_classes"] > 1:
        ctx.count("multi_linkage_networks")
    if o["has_zero_complex"]:
        ctx.count("zero_complex_networks")
    nontrivial = o["n_complexes"] >= 2 and o["stoich_rank"] >= 1
    ctx.case(("net", net, via_graph), nontrivial=nontrivial,
             sample={"space": tag, "reactions": W.fmt_net(net), **{k: o[k] for k in ("n_complexes", "n_linkage_classes", "stoich_rank", "deficiency", "weakly_reversible")}}
             if (ctx.evaluations < 2 or ctx.rng.random() < 0.001) else None)


def run(ctx):
    rng = ctx.rng
    if ctx.shard == 0:
        for name, net in W.TEXTBOOK.items():
            check_network(ctx, net, tag="textbook:" + name, pinned=TEXTBOOK_DEFICIENCY.get(name))
            check_network(ctx, net, tag="textbook:" + name, via_graph=True)
    idx = 0
    if ctx.quick:
        spaces = [("3sp,<=2rxn,coeff0-1", (0, 1), 2), ("3sp,<=1rxn,coeff0-2", (0, 1, 2), 1)]
    else:
        spaces = [("3sp,<=2rxn,coeff0-2", (0, 1, 2), 2), ("3sp,<=3rxn,coeff0-1", (0, 1), 3)]
    if not ctx.quick:
        for net in W.enum_networks(("A", "B", "C", "D"), (0, 1), 2):
            idx += 1
            if ctx.mine(idx):
                check_network(ctx, net, tag="4sp,<=2rxn,coeff0-1")
        ctx.exhaustive["4sp,<=2rxn,coeff0-1"] = True
    for tag, coeffs, k in spaces:
        for net in W.enum_networks(("A", "B", "C"), coeffs, k):
            idx += 1
            if ctx.mine(idx):
                check_network(ctx, net, tag=tag)
        ctx.exhaustive[tag] = True
    # linkage classes built from strongly connected blocks (reversible pairs, 3-cycles) joined by one-way reactions, next to
    # other classes: every complex lies on a cycle, yet the class is not weakly reversible
    names = [chr(ord("A") + i) for i in range(12)]
    for t in range(40 if ctx.quick else 600):
        pool = list(names)
        rng.shuffle(pool)
        net = []
        for cls in range(rng.randint(2, 3)):
            blocks = []
            for b in range(rng.randint(1, 3)):
                size = rng.choice([2, 2, 3])
                if len(pool) < size:
                    break
                cx = [pool.pop() for _ in range(size)]
                blocks.append(cx)
                for i_ in range(size):
                    net.append(W.rxn({cx[i_]: 1}, {cx[(i_ + 1) % size]: 1}))
            for b1, b2 in zip(blocks, blocks[1:]):
                if rng.random() < 0.85:
                    net.append(W.rxn({rng.choice(b1): 1}, {rng.choice(b2): 1}))        # one-way bridge
                    if rng.random() < 0.25:
                        net.append(W.rxn({rng.choice(b2): 1}, {rng.choice(b1): 1}))    # ... sometimes closed again
        if rng.random() < 0.5:
            rng.shuffle(net)
        if len(net) >= 2:
            ctx.count("scc_chain_networks")
            check_network(ctx, net, tag="strongly connected blocks joined by one-way reactions")
    if ctx.quick:
        rx = W.all_reactions(("A", "B", "C"), (0, 1, 2))
        for _ in range(600):
            check_network(ctx, [rng.choice(rx) for _ in range(rng.randint(2, 3))], tag="sample 3sp,<=3rxn,coeff0-2")
    n = 500 if ctx.quick else 12000
    for i in range(n):
        if ctx.out_of_time():
            ctx.count("random_truncated_by_budget")
            break
        net = W.random_network(rng, n_species=rng.randint(2, 6), n_rxn=rng.randint(1, 6),
                               max_coeff=rng.choice([1, 2, 3]), rules=["r", "k"][: rng.randint(1, 2)],
                               p_reverse=rng.choice([0.1, 0.4, 0.7]), p_dup=0.1)
        check_network(ctx, net, tag="random", via_graph=(i % 5 == 0))
        ctx.count("random_networks")


def replay(ctx, v):
    w = v["witness"]
    net = [(r, tuple(tuple(x) for x in a), tuple(tuple(x) for x in b)) for r, a, b in w["net"]]
    check_network(ctx, net, tag="replay", via_graph=bool(w.get("via_graph")))
