"""C13 — clustering partitions graphs exactly into isomorphism classes.

Oracle: independent isomorphism classes (back-tracking search on element, charge, bond order).
Monitors: the 'class' field written by GraphCluster.fit and BatchCluster.fit / cluster / lib_check is
compared, as a partition, with the oracle classes for every list order, batch size, arrival order and
template library tried."""
from __future__ import annotations

import copy

import networkx as nx

from oracles import brute as B
from workloads import graphs as WG

RULE = (
    "one case = one multiset of reaction-centre graphs (duplicates, relabelled copies, near misses) clustered "
    "in one list order / batch size / arrival order; distinct = distinct (multiset, order, configuration); "
    "non-trivial = >=2 oracle classes and >=1 class with >=2 members"
)
REQUIRED = ["graphcluster_runs", "batchcluster_runs", "incremental_runs", "order_permutations", "near_miss_pairs_present",
            "relabelled_copies_present", "pregroup_attribute_runs", "template_library_with_gaps_runs",
            "same_ids_near_miss_present", "reclustered_entries_runs", "lib_check_single_matcher_runs", "half_order_near_misses",
            "inplace_edit_recluster_runs", "template_library_not_in_class_order_runs", "bridged_ring_multisets"]
ASSUMPTIONS = [
    "isomorphism on element (default '*'), charge (default 0), bond order (default 1) — the clusterers' defaults",
    "the pre-grouping attribute supplied by the harness is isomorphism-invariant (sorted element string)",
]
SHARDS = {"quick": 8, "thorough": 16}
BUDGET_S = {"quick": 50, "thorough": 500}


def node_ok(a, b):
    return a.get("element", "*") == b.get("element", "*") and a.get("charge", 0) == b.get("charge", 0)


def edge_ok(a, b):
    return a.get("order", 1) == b.get("order", 1)


_pool = []
STEP_HALF = [0]


def pool():
    if _pool:
        return _pool
    from workloads import corpus
    from synkit.IO.chem_converter import rsmi_to_its
    from synkit.Graph.ITS.its_decompose import get_rc

    for d in corpus.pickled():
        _pool.append(d["RC"])
    for rid, r in corpus.wellformed_reactions()[:150:3]:
        try:
            _pool.append(get_rc(rsmi_to_its(r)))
        except Exception:
            pass
    return _pool


def near_miss(rng, G, keep_ids=False):
    H = G.copy()
    if rng.random() < 0.5 and H.number_of_edges():
        u, v = rng.choice(list(H.edges))
        o = H[u][v].get("order", 1)
        step = rng.choice([1.0, 0.5])  # 0.5: aromatic vs single/double near misses
        if step == 0.5:
            STEP_HALF[0] += 1
        H[u][v]["order"] = (o[0] + step, o[1]) if isinstance(o, tuple) else o + step
    else:
        v = rng.choice(list(H.nodes))
        H.nodes[v]["charge"] = H.nodes[v].get("charge", 0) + rng.choice([-1, 1])
    if keep_ids:
        return H
    return WG.scramble(H, rng)[0]


def oracle_classes(graphs):
    reps, cls = [], []
    for g in graphs:
        for ci, r in enumerate(reps):
            if B.is_isomorphic(g, r, node_ok, edge_ok):
                cls.append(ci)
                break
        else:
            reps.append(g)
            cls.append(len(reps) - 1)
    return cls


def same_partition(a, b):
    m1, m2 = {}, {}
    for x, y in zip(a, b):
        if m1.setdefault(x, y) != y or m2.setdefault(y, x) != x:
            return False
    return True


def invariant_attr(g):
    return "".join(sorted(str(d.get("element", "*")) for _, d in g.nodes(data=True)))


def build_multiset(ctx):
    rng = ctx.rng
    P = pool()
    base = [rng.choice(P) for _ in range(rng.randint(3, 8))]
    graphs = []
    for g in base:
        graphs.append(g)
        for _ in range(rng.randint(0, 2)):
            k = rng.random()
            if k < 0.3:
                graphs.append(g.copy())
            elif k < 0.6:
                graphs.append(WG.scramble(g, rng)[0])
                ctx.count("relabelled_copies_present")
            elif k < 0.8:
                graphs.append(near_miss(rng, g))
                ctx.count("near_miss_pairs_present")
            else:
                graphs.append(near_miss(rng, g, keep_ids=True))
                ctx.count("near_miss_pairs_present")
                ctx.count("same_ids_near_miss_present")
    rng.shuffle(graphs)
    return graphs


def entries(graphs, order, with_attr):
    out = []
    for i in order:
        e = {"idx": i, "gml": graphs[i]}
        if with_attr:
            e["WLHash"] = invariant_attr(graphs[i])
        out.append(e)
    return out


def check_multiset(ctx, graphs, tag):
    from synkit.Graph.Matcher.graph_cluster import GraphCluster
    from synkit.Graph.Matcher.batch_cluster import BatchCluster

    rng = ctx.rng
    want = oracle_classes(graphs)
    n = len(graphs)
    wit = {"graphs": [WG.describe(g) for g in graphs]}
    digests = [WG.gdigest(g) for g in graphs]
    n_orders = 5 if ctx.quick else 12
    for t in range(n_orders):
        order = list(range(n))
        if t:
            rng.shuffle(order)
        ctx.count("order_permutations")
        with_attr = t % 2 == 1
        if with_attr:
            ctx.count("pregroup_attribute_runs")
        exp = [want[i] for i in order]
        ak = "WLHash" if with_attr else None  # "none": no pre-grouping attribute at all
        # ---- GraphCluster.fit ---- #
        data = GraphCluster().fit(entries(graphs, order, with_attr), rule_key="gml", attribute_key=ak)
        got = [e["class"] for e in data]
        ctx.count("graphcluster_runs")
        if None in got or not same_partition(got, exp):
            ctx.violation("graphcluster-partition", {**wit, "order": order, "attr": with_attr},
                          f"GraphCluster.fit classes {got} are not the isomorphism classes {exp} (list order {order})")
        # ---- BatchCluster.fit, several batch sizes ---- #
        for bs in (None, 1, 3, 7):
            data, templ = BatchCluster().fit(entries(graphs, order, with_attr), None if t % 3 else [], rule_key="gml",
                                             attribute_key=ak, batch_size=bs)
            got = [e["class"] for e in data]
            ctx.count("batchcluster_runs")
            if len(got) != n or None in got or not same_partition(got, exp):
                ctx.violation("batchcluster-partition", {**wit, "order": order, "batch_size": bs, "attr": with_attr},
                              f"BatchCluster.fit(batch_size={bs}) classes {got} are not the isomorphism classes {exp}")
            if len({e["class"] for e in templ}) != len(templ) or len(templ) != len(set(exp)):
                ctx.violation("batchcluster-templates", {**wit, "order": order, "batch_size": bs},
                              f"BatchCluster.fit(batch_size={bs}) returned {len(templ)} templates for {len(set(exp))} classes")
        # ---- incremental classification against an existing library ---- #
        k = rng.randint(1, max(1, n // 2))
        lib_idx, new_idx = order[:k], order[k:]
        bc = BatchCluster()
        lib_data, templ = bc.cluster(entries(graphs, lib_idx, with_attr), [], rule_key="gml", attribute_key=ak)
        templ = [dict(x) for x in templ]
        gaps = t % 2 == 0
        if gaps and templ:
            # a curated library: class ids with gaps / not starting at 0, one representative dropped
            remap = {c: 3 * c + 2 for c in {x["class"] for x in templ}}
            for x in templ:
                x["class"] = remap[x["class"]]
            if len(templ) > 1:
                templ.pop(rng.randrange(len(templ)))
            ctx.count("template_library_with_gaps_runs")
        if t % 3 == 1 and len(templ) > 1:
            # a merged / re-ordered library: representatives are not listed in class order
            rng.shuffle(templ)
            if templ[-1]["class"] != max(x["class"] for x in templ):
                ctx.count("template_library_not_in_class_order_runs")
        lib_class_of = {want[x["idx"]]: x["class"] for x in templ}
        used = set(lib_class_of.values())
        new_data, templ2 = bc.cluster(entries(graphs, new_idx, with_attr), templ, rule_key="gml", attribute_key=ak)
        ctx.count("incremental_runs")
        fresh = {}
        for e in new_data:
            oc = want[e["idx"]]
            c = e["class"]
            if oc in lib_class_of:
                if c != lib_class_of[oc]:
                    ctx.violation("incremental-wrong-class", {**wit, "order": order, "library": lib_idx, "gaps": gaps},
                                  f"item {e['idx']} is isomorphic to the representative of class {lib_class_of[oc]} but was put into class {c}")
                    break
            else:
                if oc in fresh:
                    ok = c == fresh[oc]
                else:
                    ok = c not in used and c not in fresh.values()
                    fresh[oc] = c
                if not ok:
                    ctx.violation("incremental-fresh-class", {**wit, "order": order, "library": lib_idx, "gaps": gaps},
                                  f"item {e['idx']} matches no representative but received class {c} (library classes {sorted(used)}, fresh {fresh})")
                    break
    # history: the very same entry dicts are clustered a second time inside a different list
    ents = entries(graphs, list(range(n)), False)
    half = ents[: max(1, n // 3)]
    GraphCluster().fit(half, rule_key="gml", attribute_key=None)
    order2 = list(range(n))
    rng.shuffle(order2)
    again = [ents[i] for i in order2]
    data = GraphCluster().fit(again, rule_key="gml", attribute_key=None)
    ctx.count("reclustered_entries_runs")
    if not same_partition([e["class"] for e in data], [want[e["idx"]] for e in data]):
        ctx.violation("graphcluster-partition", {**wit, "order": order2, "history": "entries clustered before in another list"},
                      "GraphCluster.fit gives a wrong partition when some entry dicts were clustered before in another list")
    # history: one clusterer object, the same graph objects; a member is edited in place between two runs
    gs = [g.copy() for g in graphs[: min(n, 6)]]
    if len(gs) >= 2:
        gc, bcl = GraphCluster(), BatchCluster()
        for label, runner in (("GraphCluster.fit", lambda: [e["class"] for e in gc.fit([{"gml": g} for g in gs], rule_key="gml", attribute_key=None)]),
                              ("BatchCluster.cluster", lambda: [e["class"] for e in bcl.cluster([{"gml": g} for g in gs], [], rule_key="gml", attribute_key=None)[0]])):
            first = runner()
            tgt = gs[rng.randrange(len(gs))]
            node = rng.choice(list(tgt.nodes))
            old_c = tgt.nodes[node].get("charge", 0)
            tgt.nodes[node]["charge"] = old_c + 1
            try:
                second = runner()
                ctx.count("inplace_edit_recluster_runs")
                exp2 = oracle_classes(gs)
                if not same_partition(second, exp2):
                    ctx.violation("cluster-depends-on-history", {**wit, "entry_point": label, "edited_node": node},
                                  f"{label} on the same clusterer after a member graph was edited in place (charge of atom {node}): classes {second}, "
                                  f"isomorphism classes of the graphs as they are now {exp2} (before the edit: {first})")
            finally:
                tgt.nodes[node]["charge"] = old_c
            third = runner()
            if not same_partition(third, oracle_classes(gs)):
                ctx.violation("cluster-depends-on-history", {**wit, "entry_point": label, "edited_node": node, "undone": True},
                              f"{label} after the in-place edit was undone: classes {third} are not the isomorphism classes")
    # secondary entry point with a single caller-supplied matcher: the other one must still be the clusterer's own
    from operator import eq
    from networkx.algorithms.isomorphism import generic_node_match, generic_edge_match
    nm = generic_node_match(["element", "charge"], ["*", 0], [eq, eq])
    em = generic_edge_match("order", 1, eq)
    for label, kw in (("nodeMatch only", {"nodeMatch": nm}), ("edgeMatch only", {"edgeMatch": em})):
        bc = BatchCluster()
        templ = []
        got = []
        for i in order2:
            e, templ = bc.lib_check({"idx": i, "gml": graphs[i]}, templ, rule_key="gml", attribute_key="none", **kw)
            got.append(e["class"])
        ctx.count("lib_check_single_matcher_runs")
        if not same_partition(got, [want[i] for i in order2]):
            ctx.violation("lib_check-single-matcher", {**wit, "order": order2, "given": label},
                          f"lib_check with {label} supplied does not classify into the isomorphism classes: {got} vs {[want[i] for i in order2]}")
    if [WG.gdigest(g) for g in graphs] != digests:
        ctx.violation("input-mutated", wit, "clustering modified an input graph")
    ctx.count("half_order_near_misses", STEP_HALF[0])
    STEP_HALF[0] = 0
    sizes = {}
    for c in want:
        sizes[c] = sizes.get(c, 0) + 1
    ctx.case(("ms", [WG.describe(g) for g in graphs]), nontrivial=len(sizes) >= 2 and max(sizes.values()) >= 2,
             sample={"space": tag, "n_graphs": n, "oracle_classes": want, "first_graph": WG.describe(graphs[0])}
             if (ctx.evaluations < 1 or rng.random() < 0.02) else None)


def bridged_ring_graphs(rng):
    """bicyclic centres: two bridgeheads joined by three bridges of a, b, c bonds (rings of sizes a+b, a+c, b+c), and
    fused ring pairs sharing one bond; random element on one atom so that near misses and copies are distinguishable."""
    out = []
    for a, b, c in ((1, 2, 2), (2, 2, 3), (2, 2, 2), (1, 2, 3), (2, 3, 3), (1, 3, 3), (2, 2, 4)):
        G = nx.Graph()
        nid = [2]
        G.add_node(1); G.add_node(2)
        for L in (a, b, c):
            prev = 1
            for _ in range(L - 1):
                nid[0] += 1
                G.add_edge(prev, nid[0]); prev = nid[0]
            G.add_edge(prev, 2)
        for n in G.nodes:
            G.nodes[n].update(element="C", charge=0, hcount=0, aromatic=False, atom_map=n, neighbors=[])
        for u, v in G.edges:
            G[u][v].update(order=1.0, standard_order=0.0)
        if rng.random() < 0.6:
            G.nodes[rng.choice(list(G.nodes))]["element"] = rng.choice(["N", "O"])
        out.append(G)
    return out


def run(ctx):
    for t in range(2 if ctx.quick else 20):
        base = bridged_ring_graphs(ctx.rng)
        graphs = []
        for g in base:
            graphs += [g] + [WG.scramble(g, ctx.rng)[0] for _ in range(3)] + [near_miss(ctx.rng, g, keep_ids=True)]
        ctx.rng.shuffle(graphs)
        ctx.count("bridged_ring_multisets")
        check_multiset(ctx, graphs, "bridged and fused ring systems with relabelled / re-inserted copies")
    n = 25 if ctx.quick else 400
    for t in range(n):
        if ctx.out_of_time():
            ctx.count("random_truncated_by_budget")
            break
        check_multiset(ctx, build_multiset(ctx), "multisets of corpus reaction centres with duplicates, relabelled copies, near misses")
    # small synthetic centres (brute-force friendly), incl. graphs that differ in one order only
    for t in range(10 if ctx.quick else 150):
        if ctx.out_of_time():
            break
        base = [WG.random_mol(ctx.rng, ctx.rng.randint(2, 5), p_charge=0.2) for _ in range(3)]
        graphs = []
        for g in base:
            graphs += [g, WG.scramble(g, ctx.rng)[0], near_miss(ctx.rng, g, keep_ids=True)]
            ctx.count("same_ids_near_miss_present")
        ctx.rng.shuffle(graphs)
        check_multiset(ctx, graphs, "synthetic small centres")


def replay(ctx, v):
    w = v["witness"]
    graphs = [WG.from_desc(d) for d in w["graphs"]]
    check_multiset(ctx, graphs, "replay")
