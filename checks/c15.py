"""C15 — reaction-network store stays consistent under every history of edits.

Monitor shape: *history + executable model*.  Every operation is applied to the
real CRNHyperGraph and to oracles.crn_model.Model in lock-step; after every
operation the full observable state of the store is compared with the model
and a structural class invariant (icontract.invariant on the real class) is
evaluated after every public method."""
from __future__ import annotations

import itertools

from oracles.crn_model import Model

RULE = (
    "one case = one operation sequence applied in lock-step to CRNHyperGraph and the "
    "reference model (state compared after every op); distinct = distinct op sequence; "
    "non-trivial = at least one mutation succeeded and >=2 ops"
)
REQUIRED = ["ops_checked", "invariant_evals", "copies_checked", "raises_checked",
            "generated_id_after_caller_id", "merged_from_networks_checked", "sparse_read_histories", "ops_without_read"]
ASSUMPTIONS = [
    "species labels follow the documented grammar (letters/digits/_ starting with a letter)",
    "a species kept with prune_orphans=False may legitimately disappear later when a reaction "
    "it re-entered is removed (model accepts both; only species outside occurring∪ever-kept are violations)",
]
SHARDS = {"quick": 8, "thorough": 16}
BUDGET_S = {"quick": 40, "thorough": 420}

_inv_evals = [0]
_inv_fail = []


def struct_ok(self):
    """class invariant evaluated by icontract after every public method."""
    _inv_evals[0] += 1
    try:
        msg = structural_problems(self)
    except Exception as e:  # half-constructed object
        msg = None
    if msg:
        _inv_fail.append(msg)
    return True  # record, never raise inside the code under observation


def structural_problems(H):
    occ_in, occ_out = {}, {}
    occ = set()
    for eid, e in H.edges.items():
        if e.id != eid:
            return f"edge stored under {eid!r} carries id {e.id!r}"
        for s, c in e.reactants.items():
            if not isinstance(c, int) or c <= 0:
                return f"non-positive coefficient {c!r} for {s} in {eid}"
            occ_out.setdefault(s, set()).add(eid)
            occ.add(s)
        for s, c in e.products.items():
            if not isinstance(c, int) or c <= 0:
                return f"non-positive coefficient {c!r} for {s} in {eid}"
            occ_in.setdefault(s, set()).add(eid)
            occ.add(s)
    if not occ <= set(H.species):
        return f"species occurring but not in species set: {sorted(occ - set(H.species))}"
    for name, idx, ref in (("in", H.species_to_in_edges, occ_in),
                           ("out", H.species_to_out_edges, occ_out)):
        for s in set(idx.keys()) | set(ref.keys()):
            got = set(idx.get(s, ()))
            want = ref.get(s, set())
            if got != want:
                return f"species_to_{name}_edges[{s!r}]={sorted(got)} but live reactions give {sorted(want)}"
    extra = set(H.species_to_mol) - set(H.species)
    if extra:
        return f"species_to_mol has labels of absent species {sorted(extra)}"
    return None


_installed = [False]


def install():
    if _installed[0]:
        return
    import icontract
    from synkit.CRN.Hypergraph import hypergraph as hgmod

    class InvariantBroken(Exception):
        pass

    icontract.invariant(struct_ok, error=InvariantBroken)(hgmod.CRNHyperGraph)
    _installed[0] = True


# --------------------------------------------------------------------------- #
# operations
# --------------------------------------------------------------------------- #
SHAPES = [
    ({"A": 1}, {"B": 1}),
    ({"A": 1, "B": 1}, {"C": 1}),
    ({"A": 2}, {"A": 1, "B": 1}),
    ({}, {"C": 1}),
]
OTHER = [("r_1", "r", {"A": 1}, {"B": 1}), ("q", "R", {"B": 1}, {"C": 2}), ("snk", "r", {"C": 1}, {})]


def small_alphabet():
    ops = []
    for a, b in SHAPES:
        for eid in (None, "r_1", "r_2", "x"):
            ops.append(("add", a, b, None, eid))
        ops.append(("add", a, b, "R", None))
    ops.append(("add", {}, {}, None, None))  # must raise, state unchanged
    ops.append(("add_str", "A + 2B >> C | rule=R", None))
    for eid in ("r_1", "r_2", "R_1", "x"):
        ops.append(("remove_rxn", eid))
    for s in "ABC":
        for prune in (True, False):
            ops.append(("remove_species", s, prune))
    ops.append(("merge", True))
    ops.append(("merge", False))
    ops.append(("copy",))
    ops.append(("assign_mol", "A", "molA"))
    ops.append(("assign_mol", "C", "molC"))
    ops.append(("set_mol_map", {"A": 1, "B": 2}, False, True))
    # sides as (label, count) pair lists: repeated labels accumulate, non-positive entries are ignored on their own
    ops.append(("add_objs", {"A": 1}, {}, None, None))          # sink: the product side object is empty
    ops.append(("add_objs", {}, {"B": 2}, "R", None))           # source
    ops.append(("add_pairs", [("A", 2), ("B", 1), ("A", 0)], [("C", 1)], None, None))
    ops.append(("add_pairs", [("A", 1), ("A", 2)], [("B", -1), ("B", 1), "C"], None, "x"))
    # annotation table keyed by species and by reaction ids alike (non-strict: unknown keys are skipped)
    ops.append(("set_mol_map", {"A": 5, "r_1": 6, "x": 7, "Q": 8}, False, False))
    return ops


def random_op(rng, species, rules, live_ids):
    k = rng.random()
    if k < 0.40:
        def sd():
            n = rng.choice([0, 1, 1, 2, 2, 3])
            return {s: rng.choice([1, 1, 2, 3, 12, 0, -2]) for s in rng.sample(species, min(n, len(species)))}
        rule = rng.choice(rules + [None])
        if rng.random() < 0.45:
            r0 = rule or "r"
            eid = rng.choice([f"{r0}_{rng.randint(1, 6)}", f"{rng.choice(rules)}_{rng.randint(1, 4)}", "x", "y1"])
        else:
            eid = None
        return ("add", sd(), sd(), rule, eid)
    if k < 0.415:
        sp2 = rng.sample(species, min(2, len(species)))
        a = {sp2[0]: rng.randint(1, 2)} if rng.random() < 0.7 else {}
        b = {sp2[-1]: rng.randint(1, 2)} if (not a or rng.random() < 0.6) else {}
        return ("add_objs", a, b, rng.choice(rules + [None]), None)
    if k < 0.43:
        def pl():
            out = []
            for _ in range(rng.choice([1, 2, 3, 4])):
                sp_ = rng.choice(species)
                out.append(sp_ if rng.random() < 0.15 else (sp_, rng.choice([1, 1, 2, 3, 0, -1])))
            return out
        return ("add_pairs", pl(), pl() if rng.random() < 0.85 else [], rng.choice(rules + [None]), None)
    if k < 0.47:
        a = " + ".join(rng.choice(["", "2", "3 ", "10"]) + s for s in rng.sample(species, rng.randint(1, 2)))
        b = " + ".join(rng.choice(["", "2", "11"]) + s for s in rng.sample(species, rng.randint(0, 2))) or "∅"
        suffix = rng.choice(["", " | rule=" + rng.choice(rules)])
        return ("add_str", f"{a} >> {b}{suffix}", rng.choice([None, None, rng.choice(rules)]))
    if k < 0.65:
        pool = list(live_ids) + ["r_1", "r_2", "zz"]
        return ("remove_rxn", rng.choice(pool))
    if k < 0.78:
        return ("remove_species", rng.choice(species), rng.random() < 0.6)
    if k < 0.84:
        return ("merge", rng.random() < 0.5)
    if k < 0.90:
        return ("copy",)
    if k < 0.96:
        return ("assign_mol", rng.choice(species), f"m{rng.randint(0, 9)}")
    keys = rng.sample(species, 2)
    if rng.random() < 0.5:
        keys += rng.sample(sorted(live_ids) + ["r_1", "x", "Q"], 2)   # reaction ids / absent names used as keys
    return ("set_mol_map", {s: rng.randint(0, 9) for s in keys},
            rng.random() < 0.5, rng.random() < 0.5)


# --------------------------------------------------------------------------- #
# lock-step execution
# --------------------------------------------------------------------------- #
def real_state(H):
    return {
        "edges": {eid: [e.rule, dict(e.reactants.items()), dict(e.products.items())]
                  for eid, e in H.edges.items()},
        "species": sorted(H.species),
        "mol": dict(H.species_to_mol),
    }


def compare(H, M: Model):
    """returns problem string or None; syncs the model's ambiguous 'extra' set."""
    rs = real_state(H)
    ms_edges = M.snapshot()["edges"]
    if set(rs["edges"]) != set(ms_edges):
        return f"live ids {sorted(rs['edges'])} != model {sorted(ms_edges)}"
    for eid in ms_edges:
        if rs["edges"][eid] != ms_edges[eid]:
            return f"reaction {eid}: store has {rs['edges'][eid]} model has {ms_edges[eid]}"
    occ = M.occurring()
    sp = set(rs["species"])
    if not occ <= sp:
        return f"species missing: {sorted(occ - sp)}"
    if not (sp - occ) <= M.kept:
        return f"species {sorted(sp - occ - M.kept)} present but occur nowhere and were never kept"
    M.extra = sp - occ  # legal ambiguity resolved from the real state
    M._post()
    p = structural_problems(H)
    if p:
        return p
    if rs["mol"] != M.mol:
        return f"molecule labels {rs['mol']} != model {M.mol}"
    # incidence matrix, sparse and dense
    so, eo, mp = H.incidence_matrix(sparse=True)
    if so != sorted(sp) or eo != sorted(ms_edges):
        return f"incidence orders {so} {eo}"
    want = {}
    for eid, (_, a, b) in ms_edges.items():
        for s, c in a.items():
            want[(s, eid)] = want.get((s, eid), 0) - c
        for s, c in b.items():
            want[(s, eid)] = want.get((s, eid), 0) + c
    if {k: v for k, v in mp.items() if v != 0} != {k: v for k, v in want.items() if v != 0}:
        return f"sparse incidence {mp} != products-reactants {want}"
    so2, eo2, mat = H.incidence_matrix(sparse=False)
    for i, s in enumerate(so2):
        for j, eid in enumerate(eo2):
            if int(mat[i, j]) != want.get((s, eid), 0):
                return f"dense incidence[{s},{eid}]={int(mat[i, j])} != {want.get((s, eid), 0)}"
    return None


def other_graph():
    from synkit.CRN.Hypergraph.hypergraph import CRNHyperGraph

    O = CRNHyperGraph()
    for oid, rule, a, b in OTHER:
        O.add_rxn(a, b, rule=rule, edge_id=oid)
    return O


MERGED_FROM = []   # (network that was merged into the store under test, its state right after the merge)


def apply_real(H, op):
    k = op[0]
    try:
        if k == "add":
            form = (len(op[1]) + len(op[2]) + len(str(op[4]))) % 3  # deterministic choice of the accepted input form
            a, b = dict(op[1]), dict(op[2])
            if form == 1:
                a, b = list(a.items()), list(b.items())
            elif form == 2 and all(c > 0 for c in list(a.values()) + list(b.values())):
                a = [s for s, c in a.items() for _ in range(c)]
                b = [s for s, c in b.items() for _ in range(c)]
            e = H.add_rxn(a, b, rule=op[3], edge_id=op[4])
            return ("ok", e.id)
        if k == "add_objs":
            from synkit.CRN.Hypergraph.rxn import RXNSide
            # an empty side may also be written RXNSide(None) ("defaults to empty side")
            as_none = len(str(op[3])) % 2 == 0
            ra = RXNSide(dict(op[1])) if (op[1] or not as_none) else RXNSide(None)
            rb = RXNSide(dict(op[2])) if (op[2] or not as_none) else RXNSide(None)
            e = H.add_rxn(ra, rb, rule=op[3], edge_id=op[4])
            # the caller keeps using its own objects afterwards: that must not reach the stored reaction
            ra.incr("Zq", 2)
            rb.incr("Zq", 1)
            rb["Zr"] = 3
            return ("ok", e.id)
        if k == "add_pairs":
            e = H.add_rxn([tuple(x) if isinstance(x, (list, tuple)) else x for x in op[1]],
                          [tuple(x) if isinstance(x, (list, tuple)) else x for x in op[2]], rule=op[3], edge_id=op[4])
            return ("ok", e.id)
        if k == "add_str":
            e = H.add_rxn_from_str(op[1], rule=op[2])
            return ("ok", e.id)
        if k == "remove_rxn":
            H.remove_rxn(op[1])
        elif k == "remove_species":
            H.remove_species(op[1], prune_orphans=op[2])
        elif k == "merge":
            O = other_graph()
            H.merge(O, prefix_edges=op[1])
            MERGED_FROM.append((O, real_state(O)))
        elif k == "assign_mol":
            H.assign_mol(op[1], op[2])
        elif k == "set_mol_map":
            H.set_mol_map(dict(op[1]), strict=op[2], clear_existing=op[3])
        return ("ok", None)
    except (KeyError, ValueError) as e:
        return ("raise", type(e).__name__)
    except Exception as e:   # any other exception is never a documented answer: reported through the store/model comparison
        return ("raise", "unexpected " + type(e).__name__)


def apply_model(M, op):
    k = op[0]
    if k == "add":
        return M.add(dict(op[1]), dict(op[2]), op[3], op[4])
    if k == "add_objs":
        return M.add(dict(op[1]), dict(op[2]), op[3], op[4])
    if k == "add_pairs":
        def acc(items):
            out = {}
            for it in items:
                lab, c = (it[0], int(it[1])) if isinstance(it, (list, tuple)) else (it, 1)
                if c > 0:
                    out[lab] = out.get(lab, 0) + c
            return out
        return M.add(acc(op[1]), acc(op[2]), op[3], op[4])
    if k == "add_str":
        return M.add_str(op[1], op[2])
    if k == "remove_rxn":
        return M.remove_rxn(op[1])
    if k == "remove_species":
        return M.remove_species(op[1], op[2])
    if k == "merge":
        return M.merge(OTHER, op[1])
    if k == "assign_mol":
        return M.assign_mol(op[1], op[2])
    if k == "set_mol_map":
        return M.set_mol_map(dict(op[1]), op[2], op[3])
    raise AssertionError(k)


def run_sequence(ctx, ops, observe=None):
    """returns (problem, step) or (None, None).  observe = None: the store is read and compared after every operation;
    observe = set of steps: the store is read only at those steps (and at the end), so that several edits happen
    between two reads (what a reader caches across edits is only visible this way)."""
    from synkit.CRN.Hypergraph.hypergraph import CRNHyperGraph

    H = CRNHyperGraph()
    M = Model()
    del MERGED_FROM[:]
    copies = []
    mutated = 0
    caller_ids = set()
    for step, op in enumerate(ops):
        if op[0] == "copy":
            copies.append((H.copy(), M.clone()))
            continue
        look = observe is None or step in observe
        before = real_state(H) if look else None
        ambiguous = False
        if op[0] in ("remove_species", "assign_mol"):
            s = op[1]
            ambiguous = s in M.kept and s not in M.occurring()
        live_before = set(H.edges)
        rr = apply_real(H, op)
        if op[0] == "merge" and rr[0] == "ok":
            # the id policy of merge is not part of the statement: take the new ids
            # from the store (they must be fresh and one per merged reaction)
            new_ids = [e for e in H.edges if e not in live_before]
            if len(new_ids) != len(OTHER) or len(H.edges) != len(live_before) + len(OTHER):
                return (f"merge added ids {new_ids} for {len(OTHER)} reactions; live before {sorted(live_before)}, after {sorted(H.edges)}", step)
            for nid, (_, rule, a, b) in zip(new_ids, OTHER):
                M.edges[nid] = [rule, dict(a), dict(b)]
            M._post()
            mr = ("ok", None)
            ctx.count("merged_reactions", len(new_ids))
        else:
            mr = apply_model(M, op)
        ctx.count("ops_checked")
        ctx.count("op/" + op[0])
        if rr[0] == "raise" and look:
            ctx.count("raises_checked")
            try:
                after = real_state(H)
            except Exception as e:
                return (f"{op} raised {rr[1]} and left the store unreadable ({type(e).__name__}: {e})", step)
            if after != before:
                return (f"{op} raised {rr[1]} but changed the observable state", step)
        if rr[0] != mr[0] and not ambiguous:
            return (f"{op}: store -> {rr}, model -> {mr}", step)
        if rr[0] == "ok" and op[0] in ("add", "add_str", "add_pairs", "add_objs"):
            mutated += 1
            if rr[1] in live_before:
                return (f"{op}: returned id {rr[1]!r} was already live (two reactions under one id)", step)
            if op[0] in ("add", "add_pairs", "add_objs") and op[4] is not None:
                caller_ids.add(op[4])
            elif caller_ids:
                ctx.count("generated_id_after_caller_id")
            if rr[1] != mr[1]:
                # id policy is not part of the statement; only uniqueness is. keep the model in sync.
                M.edges[rr[1]] = M.edges.pop(mr[1])
                ctx.count("id_policy_differs")
        elif rr[0] == "ok":
            mutated += 1
        if ambiguous and rr[0] != mr[0]:
            return (None, "ambiguous-skip")
        if not look:
            ctx.count("ops_without_read")
            continue
        p = compare(H, M)
        if p:
            return (f"after {op}" + ("" if observe is None else f" (store last read {step - max([x for x in observe if x < step], default=-1)} operations earlier)") + f": {p}", step)
    if observe is not None:
        p = compare(H, M)
        if p:
            return (f"at the end of the history (reads only at steps {sorted(observe)}): {p}", len(ops))
    # the networks that were merged in stay independent objects: edits of the store did not reach them, and editing
    # them now does not reach the store
    for O, snap in MERGED_FROM:
        ctx.count("merged_from_networks_checked")
        if real_state(O) != snap:
            del MERGED_FROM[:]
            return (f"a network that was merged into the store was changed by later edits of the store: {real_state(O)['edges']} (was {snap['edges']})", len(ops))
        for sp_ in sorted(O.species)[:2]:
            try:
                O.remove_species(sp_)
            except KeyError:
                pass
        p = compare(H, M)
        if not p:
            # the side objects of the other network are extended in place (also empty ones); O itself is not used after this
            for e_ in list(O.edges.values()):
                e_.reactants.data["Zm"] = e_.reactants.data.get("Zm", 0) + 1
                e_.products.data["Zn"] = e_.products.data.get("Zn", 0) + 2
            p = compare(H, M)
        if p:
            del MERGED_FROM[:]
            return (f"editing a network after it was merged into the store changed the store: {p}", len(ops))
    del MERGED_FROM[:]
    for Hc, Mc in copies:
        ctx.count("copies_checked")
        p = compare(Hc, Mc)
        if p:
            return (f"copy changed by later edits of the original: {p}", len(ops))
    return (None, mutated)


def check_sequence(ctx, ops, tag, sparse=1.0):
    n0 = len(_inv_fail)
    prob, info = run_sequence(ctx, ops)
    ctx.count("invariant_evals", _inv_evals[0])
    _inv_evals[0] = 0
    if info == "ambiguous-skip":
        ctx.count("ambiguous_skipped")
        return
    nontrivial = prob is None and isinstance(info, int) and info >= 1 and len(ops) >= 2
    ctx.case(("seq", ops), nontrivial=nontrivial,
             sample={"space": tag, "ops": ops} if ctx.rng.random() < 0.001 or ctx.evaluations < 2 else None)
    if prob:
        ctx.violation("store-vs-model", {"ops": ops}, prob)
        del _inv_fail[:]
        return
    if len(ops) >= 3 and "copy" not in [o[0] for o in ops] and (sparse >= 1.0 or ctx.rng.random() < sparse):
        # the same history once more, reading the store only now and then
        obs = {i for i in range(len(ops)) if ctx.rng.random() < 0.3}
        prob2, info2 = run_sequence(ctx, ops, observe=obs)
        ctx.count("sparse_read_histories")
        if info2 != "ambiguous-skip" and prob2:
            ctx.violation("store-vs-model-sparse-reads", {"ops": ops, "observe": sorted(obs)}, prob2)
            del _inv_fail[:]
            return
    if len(_inv_fail) > n0:
        ctx.violation("class-invariant", {"ops": ops}, _inv_fail[-1])
    del _inv_fail[:]


def run(ctx):
    install()
    alpha = small_alphabet()
    depth = 3 if ctx.quick else 4
    # exhaustive: all sequences of length 1..depth (sharded by index)
    idx = 0
    for d in range(1, depth + 1):
        for seq in itertools.product(alpha, repeat=d):
            idx += 1
            if not ctx.mine(idx):
                continue
            check_sequence(ctx, list(seq), f"exhaustive depth<={depth}", sparse=1.0 if d <= 3 else 0.25)
    ctx.exhaustive[f"all op sequences up to depth {depth} over {len(alpha)} ops (3 species, 2 rules)"] = True
    if not ctx.quick:
        # depth 5 and 6: uniformly sampled sequences over the same alphabet
        for _ in range(40000):
            d = ctx.rng.choice([5, 5, 6])
            check_sequence(ctx, [ctx.rng.choice(alpha) for _ in range(d)], "sampled depth 5-6", sparse=0.5)
        ctx.count("sampled_deep_sequences", 40000)
    ctx.count("alphabet_size", 0)
    # random long histories
    n_rand = 300 if ctx.quick else 6000
    rng = ctx.rng
    for i in range(n_rand):
        if ctx.out_of_time():
            ctx.count("random_truncated_by_budget")
            break
        nsp = rng.randint(2, 6)
        species = [chr(ord("A") + j) for j in range(nsp)]
        rules = ["r", "R", "k1", "x"][: rng.randint(1, 4)]
        ops = []
        live = set()
        for _ in range(rng.randint(5, 60)):
            op = random_op(rng, species, rules, live)
            ops.append(op)
            if op[0] == "add" and op[4]:
                live.add(op[4])
            elif op[0] == "add":
                live.add(f"{op[3] or 'r'}_{rng.randint(1, 5)}")
        check_sequence(ctx, ops, "random")
        ctx.count("random_sequences")
    if not ctx.quick and ctx.shard == 0:
        from vmon import suite
        suite.run_under(ctx, "c15")  # the repository's own tests with this monitor installed


def replay(ctx, v):
    install()
    ops = [tuple(o) for o in v["witness"]["ops"]]
    ops = [tuple(x if not isinstance(x, list) else tuple(x) for x in o) for o in ops]
    if "observe" in v["witness"]:
        prob, _ = run_sequence(ctx, ops, observe=set(v["witness"]["observe"]))
        ctx.case(("seq", tuple(ops)), nontrivial=True)
        if prob:
            ctx.violation("store-vs-model-sparse-reads", v["witness"], prob)
        return
    check_sequence(ctx, ops, "replay")
