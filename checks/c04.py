"""C04 — applying a reaction's own template regenerates it, forwards and backwards.

Monitor: for every admissible corpus reaction (well-formedness, hydrogen mode and centre-completeness decided from
the input alone) and every renumbering / SMILES rewriting of it, the template extracted from it (full ITS, or the
reaction centre when the reaction is centre-complete) is applied forwards to its unmapped reactants and backwards
to its unmapped products, with every strategy; the standardised target must be among the standardised results
(Standardize.fit, as the property prescribes).  The C03 monitors stay installed during these runs."""
from __future__ import annotations

from oracles import rdkit_rxn as R
from workloads import corpus
from checks import reactor_common as RC
from checks import c03

RULE = (
    "one case = one (reaction variant, template kind, direction, strategy) regeneration attempt; distinct = distinct "
    "attempt; non-trivial = the reactor produced >=2 candidate reactions or the template has >=2 changed bonds"
)
REQUIRED = ["regeneration_checked", "regenerated", "variants/identity", "variants/renumber", "variants/rewrite",
            "kind/its", "kind/rc", "dir/fwd", "dir/bwd", "strategy/all", "strategy/comp", "strategy/bt", "mode/explicit",
            "mode/implicit", "multi_candidate_runs", "bt_must_fall_back", "rule_object_template_checked"]
ASSUMPTIONS = [
    "precondition (decided from the input): balanced, fully mapped, hydrogens written consistently (explicit or implicit mode; 'mixed' excluded)",
    "centre templates are only required to regenerate centre-complete reactions (every atom whose label changes is an end atom of a changed bond)",
    "reactor flags follow the hydrogen mode: explicit -> implicit_temp=False; implicit -> implicit_temp=True, explicit_h=False",
]
SHARDS = {"quick": 8, "thorough": 16}
BUDGET_S = {"quick": 90, "thorough": 900}

KF_H2 = "explicit-rematch-needs-hcount-on-expanded-host"
KF_PRUNE = "synreactor-pruning-drops-target"


def classify_miss(out, tpl, d):
    """recorded mechanism: raw matches exist, but gluing yields nothing because the (inverted) rule keeps some
    hydrogens as nodes (they end in H-H on the other side) while counting others on a matched atom."""
    if "error" in out or out["n_maps"] == 0 or out["smarts"]:
        return None
    rx = out.get("rx")
    if rx is None:
        return None
    try:
        left = rx.rule.left.raw
        if len(rx.its_list) != 0:
            return None
        has_h_nodes = any(dd.get("element") == "H" for _, dd in left.nodes(data=True))
        has_count = any(dd.get("hcount", 0) > 0 for _, dd in left.nodes(data=True) if dd.get("element") != "H")
        hh_other_side = any(rx.rule.right.raw.nodes[u].get("element") == "H" and rx.rule.right.raw.nodes[v].get("element") == "H"
                            for u, v in rx.rule.right.raw.edges)
        if has_h_nodes and has_count and hh_other_side:
            return KF_H2
    except Exception:
        return None
    return None


def attempt(ctx, x, rsmi, vkind, kind, d, s):
    tgt = RC.std_fit(rsmi)
    if tgt is None:
        ctx.count("target_not_standardisable")
        return
    tpl = RC.template_of(rsmi, kind)
    a, b = rsmi.split(">>")
    sub = R.unmapped_canonical(a if d == "fwd" else b)
    wit = {"template_rid": x["rid"], "rsmi": rsmi, "variant": vkind, "kind": kind, "dir": d, "strategy": s, "substrate_rid": x["rid"]}
    if s in ("comp", "bt"):
        # Preconditions decided from the input.  The component-aware strategy, by definition (C06), only returns
        # embeddings that send different pattern components into different substrate molecules, and (documented
        # strict_cc_count guard) returns nothing when the substrate has more components than the pattern.  The
        # reaction's own embedding is such an embedding only if every component of the applied template side lies in
        # a molecule of its own.  The fallback strategy returns the component-aware result whenever that is non-empty.
        import networkx as nx
        from synkit.Graph.ITS.its_decompose import its_decompose
        l, r = its_decompose(tpl)
        pat = l if d == "fwd" else r
        side = R.side_tables(a if d == "fwd" else b)
        sg = nx.Graph()
        sg.add_nodes_from(side[0])
        sg.add_edges_from(tuple(e) for e in side[1])
        mol_of = {n: k for k, c in enumerate(nx.connected_components(sg)) for n in c}
        pcs = [set(c) for c in nx.connected_components(pat)]
        homes = [{mol_of.get(n) for n in c} for c in pcs]
        own_ok = all(len(h) == 1 for h in homes) and len({next(iter(h)) for h in homes}) == len(homes)
        guard_ok = nx.number_connected_components(sg) <= len(pcs)
        if s == "comp" and not (own_ok and guard_ok):
            ctx.count("comp_skipped_own_embedding_not_component_respecting")
            return
        if s == "bt" and not (own_ok and guard_ok):
            probe = RC.run(sub, tpl, invert=(d == "bwd"), strategy="comp", flags=RC.flags_for(x["mode"]))
            if "error" in probe or probe["n_maps"] > 0:
                ctx.count("bt_skipped_component_result_nonempty_without_own_embedding")
                return
            ctx.count("bt_must_fall_back")
    c03._current[0] = wit
    import time
    t0 = time.time()
    out = RC.run(sub, tpl, invert=(d == "bwd"), strategy=s, flags=RC.flags_for(x["mode"]), want_its=True)
    c03._current[0] = None
    if time.time() - t0 > 15:
        ctx.count("slow_runs_over_15s")
        ctx.notes.append(f"slow run {time.time() - t0:.0f}s: rid={x['rid']} {vkind} {kind} {d} {s}")
    for k in ("variants/" + vkind.split("+")[0], "kind/" + kind, "dir/" + d, "strategy/" + s, "mode/" + x["mode"]):
        ctx.count(k)
    ctx.count("regeneration_checked")
    if out.get("timeout"):
        ctx.count("runs_timed_out_inconclusive")
        return
    if "error" in out:
        ctx.violation("reactor-exception", wit, f"reactor raised on a reaction's own template: {out['error']}")
        return
    if len(out["std"]) >= 2:
        ctx.count("multi_candidate_runs")
    if tgt in out["std"]:
        ctx.count("regenerated")
        # the same template handed over as a SynRule object (the reactor's own rule container) must regenerate it too
        if s == "all" and vkind == "identity":
            try:
                from synkit.Rule.syn_rule import SynRule
                # built the way the reactor itself wraps a graph template for these flags
                rule_obj = SynRule(tpl, implicit_h=False) if RC.flags_for(x["mode"]).get("implicit_temp") else SynRule(tpl)
                alt = RC.run(sub, rule_obj, invert=(d == "bwd"), strategy=s, flags=RC.flags_for(x["mode"]))
            except Exception as e:
                alt = {"error": f"{type(e).__name__}: {e}"}
            if not alt.get("timeout"):
                ctx.count("rule_object_template_checked")
                if "error" in alt or tgt not in alt["std"]:
                    ctx.violation("not-regenerated-with-rule-object", {**wit, "container": "SynRule"},
                                  f"own template ({kind}, {d}) regenerates the reaction when passed as a graph but not when passed as a SynRule object: "
                                  f"{alt.get('error') or str(len(alt['std'])) + ' result(s)'}")
    else:
        finding = classify_miss(out, tpl, d)
        wid = f"{x['rid']}/{d}"
        if finding is None:
            # differential classifier: the target is produced when the pruning step is the identity
            RC.BYPASS[0] = True
            try:
                un = RC.run(sub, tpl, invert=(d == "bwd"), strategy=s, flags=RC.flags_for(x["mode"]))
            finally:
                RC.BYPASS[0] = False
            if "error" not in un and tgt in un["std"]:
                finding, wid = KF_PRUNE, None
        ctx.violation("not-regenerated", {**wit, "n_matches": out["n_maps"], "n_results": len(out["std"])},
                      f"own template ({kind}, {d}, {s}) does not regenerate the reaction: {out['n_maps']} match(es), {len(out['std'])} distinct result(s)",
                      finding=finding, witness_id=wid)
    ctx.case(("regen", rsmi, kind, d, s), nontrivial=len(out["std"]) >= 2 or out["n_raw"] >= 2,
             sample={"space": "corpus reactions x variants", **{k: v for k, v in wit.items() if k != "rsmi"}, "rsmi": rsmi[:200], "results": len(out["std"])}
             if (ctx.evaluations < 2 or ctx.rng.random() < 0.003) else None)


def run(ctx):
    c03.install()
    RC.RUN_TIMEOUT_S[0] = 10 if ctx.quick else 45
    rng = ctx.rng
    rx = [x for x in RC.rxns() if RC.flags_for(x["mode"])]
    step = 5 if ctx.quick else 1
    for i, x in enumerate(rx):
        if not ctx.mine(i) or ((i // ctx.nshards) % step != ctx.seed % step and x["rid"] < 10000):
            continue  # corpus reactions are sampled in the quick tier; the hand-written extras always run
        if ctx.out_of_time():
            ctx.count("truncated_by_budget")
            break
        vs = [("identity", x["rsmi"])]
        for _ in range(1 if ctx.quick else 2):
            vs.append(("renumber", corpus.renumber(x["rsmi"], rng)))
        w = corpus.rewrite(x["rsmi"], rng)
        if w:
            vs.append(("rewrite", w))
            if not ctx.quick:
                vs.append(("rewrite+renumber", corpus.renumber(w, rng)))
        for vkind, rsmi in vs:
            for kind in ("its", "rc"):
                if kind == "rc" and not x["cc"]:
                    ctx.count("rc_skipped_not_centre_complete")
                    continue
                for d in ("fwd", "bwd"):
                    strategies = ("all", "comp", "bt") if (vkind == "identity" or not ctx.quick) else (rng.choice(["all", "comp", "bt"]),)
                    for s in strategies:
                        attempt(ctx, x, rsmi, vkind, kind, d, s)
    c03.flush(ctx)


def replay(ctx, v):
    c03.install()
    w = v["witness"]
    x = RC.rx_by_id(w["template_rid"])
    attempt(ctx, x, w.get("rsmi") or x["rsmi"], w.get("variant", "identity"), w["kind"], w["dir"], w["strategy"])
    c03.flush(ctx)
