"""C02 — reaction centre is exactly the set of changed bonds; context grows monotonically.

Monitors: post-conditions on get_rc (changed-bond scan recomputed independently; idempotence),
rsmi_to_its(core=True), RadiusExpand.extract_k (independent BFS ball, induced sub-graph with identical
attributes, inclusion chain for k = 0..3) and the renumbering relation (isomorphic centres)."""
from __future__ import annotations

import networkx as nx
from networkx.algorithms.isomorphism import GraphMatcher

from workloads import corpus
from workloads import graphs as WG

RULE = (
    "one case = one ITS graph (corpus reaction, renumbering of it, pickled corpus ITS, or synthetic ITS) examined "
    "for centre extraction and contexts k=0..3; distinct = distinct ITS; non-trivial = >=1 changed bond and >=1 "
    "unchanged bond"
)
REQUIRED = ["get_rc_checked", "idempotence_checked", "extract_k_checked", "chain_checked", "core_flag_checked",
            "renumbering_relation_checked", "hh_bond_cases", "half_order_changes", "product_only_bonds",
            "contexts_strictly_growing", "disconnected_centres", "derived_graph_contexts_checked", "hh_bond_with_both_ends_in_other_centre_bonds",
            "inplace_edit_contexts_checked", "one_sided_atom_pairs", "synthetic_its/construct(store=True)", "custom_key_extraction_checked"]
ASSUMPTIONS = [
    "ITS graphs built with default flags (ignore_aromaticity=False): standard_order is the plain difference",
    "centre node attributes compared: element, charge, typesGH, atom_map (the documented selection)",
]
SHARDS = {"quick": 8, "thorough": 16}
BUDGET_S = {"quick": 50, "thorough": 500}
KEYS = ["element", "charge", "typesGH", "atom_map"]


def is_h(el):
    """hydrogen label; ITSConstruction.construct(store=True) keeps (reactant-side, product-side) pairs per attribute."""
    return el == "H" or (isinstance(el, tuple) and len(el) == 2 and all(x == "H" for x in el))


def expected_rc(its):
    edges = {}
    for u, v, d in its.edges(data=True):
        o = d.get("order")
        changed = isinstance(o, tuple) and o[0] != o[1]
        hh = is_h(its.nodes[u].get("element")) and is_h(its.nodes[v].get("element"))
        if changed or hh:
            edges[frozenset((u, v))] = d
    nodes = {n for e in edges for n in e}
    return nodes, edges


def check_rc(ctx, its, wit):
    from synkit.Graph.ITS.its_decompose import get_rc

    d0 = WG.gdigest(its)
    rc = get_rc(its)
    ctx.count("get_rc_checked")
    nodes, edges = expected_rc(its)
    got_e = {frozenset(e) for e in rc.edges}
    if got_e != set(edges):
        ctx.violation("rc-bonds", wit, f"centre bonds {sorted(map(sorted, got_e))[:6]} != changed bonds (+H-H) {sorted(map(sorted, edges))[:6]}: "
                      f"missing {sorted(map(sorted, set(edges) - got_e))[:3]} extra {sorted(map(sorted, got_e - set(edges)))[:3]}")
        return None
    if set(rc.nodes) != nodes:
        ctx.violation("rc-atoms", wit, f"centre atoms {sorted(rc.nodes)} != end atoms of the changed bonds {sorted(nodes)}")
        return None
    for n in nodes:
        for k in KEYS:
            if k in its.nodes[n] and rc.nodes[n].get(k) != its.nodes[n][k]:
                ctx.violation("rc-labels", wit, f"centre atom {n}: {k}={rc.nodes[n].get(k)!r} but the ITS has {its.nodes[n][k]!r}")
                return None
    for e, d in edges.items():
        u, v = tuple(e)
        if rc[u][v].get("order") != d.get("order") or rc[u][v].get("standard_order") != d.get("standard_order"):
            ctx.violation("rc-labels", wit, f"centre bond {u}-{v}: {rc[u][v]} but the ITS has {d}")
            return None
    rc2 = get_rc(rc)
    ctx.count("idempotence_checked")
    if set(rc2.nodes) != set(rc.nodes) or {frozenset(e) for e in rc2.edges} != got_e or \
            any(rc2.nodes[n].get(k) != rc.nodes[n].get(k) for n in rc.nodes for k in KEYS):
        ctx.violation("rc-not-idempotent", wit, "extracting the centre of a centre changes it")
    if WG.gdigest(its) != d0:
        ctx.violation("input-mutated", wit, "get_rc modified the ITS")
    # the same extraction on a copy whose bond attributes live under other names (bond_key / standard_key arguments)
    if ctx.rng.random() < 0.25:
        alt = nx.Graph()
        alt.add_nodes_from((n, dict(d)) for n, d in its.nodes(data=True))
        for u, v, d in its.edges(data=True):
            dd = {k: x for k, x in d.items() if k not in ("order", "standard_order")}
            dd["bo"], dd["so"] = d.get("order"), d.get("standard_order")
            alt.add_edge(u, v, **dd)
        try:
            rca = get_rc(alt, bond_key="bo", standard_key="so")
            rca2 = get_rc(rca, bond_key="bo", standard_key="so")
        except Exception as e:
            ctx.violation("rc-custom-keys", wit, f"get_rc(bond_key='bo', standard_key='so') raises {type(e).__name__}: {e}")
            return rc
        ctx.count("custom_key_extraction_checked")
        ea = {frozenset(e): (rca.edges[e].get("bo"), rca.edges[e].get("so")) for e in rca.edges}
        want_e = {e: (d.get("order"), d.get("standard_order")) for e, d in edges.items()}
        if set(rca.nodes) != nodes or ea != want_e:
            ctx.violation("rc-custom-keys", wit, f"with bond_key/standard_key renamed the centre has bonds {sorted(map(sorted, ea))[:6]} labelled "
                          f"{list(ea.values())[:3]}; expected {sorted(map(sorted, want_e))[:6]} labelled {list(want_e.values())[:3]}")
        elif set(rca2.nodes) != set(rca.nodes) or {frozenset(e) for e in rca2.edges} != set(ea):
            ctx.violation("rc-not-idempotent", {**wit, "custom_keys": True}, "with renamed bond keys, extracting the centre of a centre changes it")
    return rc


def ball(its, centre, k):
    seen = set(centre)
    frontier = set(centre)
    for _ in range(k):
        nxt = set()
        for v in frontier:
            nxt.update(its[v])
        frontier = nxt - seen
        seen |= nxt
    return seen


def check_contexts(ctx, its, rc, wit):
    from synkit.Graph.Context.radius_expand import RadiusExpand

    prev = None
    centre = set(rc.nodes)
    sizes = []
    for k in range(0, 4):
        ctxg = RadiusExpand.extract_k(its, k)
        ctx.count("extract_k_checked")
        want = ball(its, centre, k) if k else centre
        if set(ctxg.nodes) != want:
            ctx.violation("context-atoms", {**wit, "k": k}, f"context({k}) atoms {sorted(ctxg.nodes)[:10]} != atoms within {k} bonds of the centre {sorted(want)[:10]}")
            return
        if k >= 1:
            ind = its.subgraph(want)
            if {frozenset(e) for e in ctxg.edges} != {frozenset(e) for e in ind.edges} or \
                    any(ctxg.nodes[n] != its.nodes[n] for n in want) or \
                    any(ctxg.edges[e] != its.edges[e] for e in ind.edges):
                ctx.violation("context-not-induced", {**wit, "k": k}, f"context({k}) is not the induced sub-graph of the ITS with identical attributes")
                return
        if prev is not None:
            ctx.count("chain_checked")
            pe = {frozenset(e) for e in prev.edges}
            ce = {frozenset(e) for e in ctxg.edges}
            if not (set(prev.nodes) <= set(ctxg.nodes) and pe <= ce):
                ctx.violation("context-chain", {**wit, "k": k}, f"context({k - 1}) is not contained in context({k})")
                return
            for e in pe:
                u, v = tuple(e)
                if prev[u][v].get("order") != ctxg[u][v].get("order"):
                    ctx.violation("context-chain", {**wit, "k": k}, f"bond {u}-{v} changes its order pair between context({k - 1}) and context({k})")
                    return
        if not (set(ctxg.nodes) <= set(its.nodes)):
            ctx.violation("context-chain", {**wit, "k": k}, "context is not inside the ITS")
        sizes.append(ctxg.number_of_nodes())
        prev = ctxg
    if len(set(sizes)) >= 3:
        ctx.count("contexts_strictly_growing")
    # history: a graph *derived* from an ITS that has already been queried (relabelled copy, then an edited copy)
    # must be analysed on its own terms
    shift = {n: n + 1000 for n in its.nodes} if all(isinstance(n, int) for n in its.nodes) else None
    if shift:
        its2 = nx.relabel_nodes(its, shift)
        e = next(((u, v) for u, v, d in its2.edges(data=True) if d["order"][0] == d["order"][1] and d["order"][0]), None)
        if e is not None:
            o = its2.edges[e]["order"][0]
            its2.edges[e]["order"] = (o, 0.0)          # this bond now breaks: the centre of the copy grows
            its2.edges[e]["standard_order"] = o
        from synkit.Graph.ITS.its_decompose import get_rc
        c2 = set(expected_rc(its2)[0])
        for k in (1, 2):
            try:
                got = set(RadiusExpand.extract_k(its2, k).nodes)
            except Exception as ex:
                ctx.violation("context-exception", {**wit, "k": k, "derived": True},
                              f"extract_k raises {type(ex).__name__}: {ex} on a relabelled/edited copy of an already queried ITS")
                break
            ctx.count("derived_graph_contexts_checked")
            if got != ball(its2, c2, k):
                ctx.violation("context-atoms", {**wit, "k": k, "derived": True},
                              f"context({k}) of a relabelled/edited copy of an already queried ITS is not the {k}-ball around the copy's own centre")
                break


def check_inplace_edits(ctx, its, wit):
    """history on ONE graph object: query, edit bond attributes in place (node and edge counts unchanged), query again."""
    from synkit.Graph.Context.radius_expand import RadiusExpand

    w = its.copy()
    for k in (0, 1, 2):
        RadiusExpand.extract_k(w, k)
    rng = ctx.rng
    same = [(u, v) for u, v, d in w.edges(data=True) if d["order"][0] == d["order"][1] and d["order"][0]
            and not (is_h(w.nodes[u].get("element")) and is_h(w.nodes[v].get("element")))]
    diff = [(u, v) for u, v, d in w.edges(data=True) if d["order"][0] != d["order"][1]]
    edits = []
    if same:
        edits.append(("break", rng.choice(same)))
    if len(diff) > 1:
        edits.append(("freeze", rng.choice(diff)))
    for kind, (u, v) in edits:
        o = w[u][v]["order"]
        if kind == "break":
            w[u][v]["order"] = (o[0], 0.0)
            w[u][v]["standard_order"] = o[0]
        else:
            keep = o[0] or o[1]
            w[u][v]["order"] = (keep, keep)
            w[u][v]["standard_order"] = 0.0
        centre = set(expected_rc(w)[0])
        for k in (0, 1, 2):
            try:
                got = set(RadiusExpand.extract_k(w, k).nodes)
            except Exception as ex:
                ctx.violation("context-exception", {**wit, "k": k, "edit": kind}, f"extract_k raises {type(ex).__name__}: {ex} after an in-place bond edit")
                return
            ctx.count("inplace_edit_contexts_checked")
            want = ball(w, centre, k) if k else centre
            if got != want:
                ctx.violation("context-atoms", {**wit, "k": k, "edit": kind, "bond": [u, v]},
                              f"after editing bond {u}-{v} in place ({kind}) context({k}) is not the {k}-ball around the graph's present centre "
                              f"({len(got)} atoms, expected {len(want)})")
                return


def rc_iso(a, b):
    nm = lambda x, y: x.get("element") == y.get("element") and x.get("charge") == y.get("charge")
    em = lambda x, y: x.get("order") == y.get("order")
    return GraphMatcher(a, b, node_match=nm, edge_match=em).is_isomorphic()


def check_its(ctx, its, tag, key, wit):
    rc = check_rc(ctx, its, wit)
    if rc is None:
        return None
    check_contexts(ctx, its, rc, wit)
    check_inplace_edits(ctx, its, wit)
    n_changed = sum(1 for _, _, d in its.edges(data=True) if d["order"][0] != d["order"][1])
    for u, v, d in rc.edges(data=True):
        o = d["order"]
        if o[0] == o[1]:
            ctx.count("hh_bond_cases")
            if rc.degree(u) > 1 and rc.degree(v) > 1:
                ctx.count("hh_bond_with_both_ends_in_other_centre_bonds")
        if abs(o[0] - o[1]) == 0.5:
            ctx.count("half_order_changes")
        if o[0] == 0:
            ctx.count("product_only_bonds")
    if rc.number_of_nodes() and nx.number_connected_components(rc) > 1:
        ctx.count("disconnected_centres")
    one_sided = {n for n, d in its.nodes(data=True) if "typesGH" in d and d["typesGH"][0][0] != d["typesGH"][1][0]}
    if any(u in one_sided and v in one_sided for u, v in its.edges):
        ctx.count("one_sided_atom_pairs")
    ctx.case(key, nontrivial=n_changed >= 1 and its.number_of_edges() > n_changed,
             sample={"space": tag, **{k: v for k, v in wit.items() if k != "its"}, "centre_atoms": sorted(rc.nodes), "its_atoms": its.number_of_nodes()}
             if (ctx.evaluations < 2 or ctx.rng.random() < 0.003) else None)
    return rc


def synthetic_its(rng):
    from synkit.Graph.ITS.its_construction import ITSConstruction
    from checks.c01 import synthetic_pair

    G, H = synthetic_pair(rng)
    if rng.random() < 0.35:
        # add an H2 molecule (unchanged H-H bond) and maybe an H transfer
        base = max(G.nodes) + 1
        for g in (G, H):
            for x in (base, base + 1):
                g.add_node(x, element="H", hcount=0, charge=0, aromatic=False, atom_map=x, neighbors=["H"])
            g.add_edge(base, base + 1, order=1.0)
        k = rng.random()
        if k < 0.4:
            H.remove_edge(base, base + 1)
            tgt = rng.choice([v for v in H.nodes if v < base])
            H.add_edge(base, tgt, order=1.0)
        elif k < 0.75:
            # the H-H bond persists while both hydrogens also gain bonds to heavy atoms (bridging X-H...H-Y)
            heavy = [v for v in H.nodes if v < base]
            H.add_edge(base, rng.choice(heavy), order=1.0)
            H.add_edge(base + 1, rng.choice(heavy), order=1.0)
    if rng.random() < 0.25:
        # a fragment of 2-3 bonded atoms that exists on one side only (unbalanced reaction: leaving group not written,
        # reagent fragment appearing): its atoms carry the placeholder label on the other side
        side = H if rng.random() < 0.6 else G
        base = max(max(G.nodes), max(H.nodes)) + 1
        anchor = rng.choice(sorted(side.nodes))
        prev = anchor
        for x in range(base, base + rng.randint(2, 3)):
            side.add_node(x, element=rng.choice(["C", "O", "S", "N"]), hcount=0, charge=0, aromatic=False, atom_map=x, neighbors=[])
            side.add_edge(prev, x, order=float(rng.choice([1, 1, 2])))
            prev = x
    if rng.random() < 0.3:
        STYLE[0] = "construct(store=True)"
        return ITSConstruction.construct(G, H)    # the newer constructor: attributes stored as (reactant, product) pairs
    STYLE[0] = "ITSGraph"
    return ITSConstruction().ITSGraph(G, H)


STYLE = [None]


def its_desc(its):
    return {"nodes": [[n, d.get("element"), list(map(list, d["typesGH"])) if False else None] for n, d in its.nodes(data=True)][:0],
            "edges": [[u, v, list(d["order"])] for u, v, d in its.edges(data=True)],
            "elements": {str(n): d.get("element") for n, d in its.nodes(data=True)}}


def run(ctx):
    from synkit.IO.chem_converter import rsmi_to_its
    from synkit.Graph.ITS.its_decompose import get_rc

    rng = ctx.rng
    wf = corpus.wellformed_reactions()
    for i, (rid, r) in enumerate(wf):
        if not ctx.mine(i):
            continue
        if ctx.out_of_time(0.6):
            ctx.count("corpus_truncated_by_budget")
            break
        its = rsmi_to_its(r)
        rc = check_its(ctx, its, "corpus reactions", ("rx", r), {"rsmi": r})
        if rc is None:
            continue
        core = rsmi_to_its(r, core=True)
        ctx.count("core_flag_checked")
        if set(core.nodes) != set(rc.nodes) or {frozenset(e) for e in core.edges} != {frozenset(e) for e in rc.edges} or \
                any(core.nodes[n] != rc.nodes[n] for n in rc.nodes):
            ctx.violation("core-flag", {"rsmi": r}, "rsmi_to_its(core=True) differs from get_rc(rsmi_to_its(r))")
        for _ in range(1 if ctx.quick else 4):
            r2 = corpus.renumber(r, rng)
            its2 = rsmi_to_its(r2)
            rc2 = check_its(ctx, its2, "renumbered corpus reactions", ("rx", r2), {"rsmi": r2})
            ctx.count("renumbering_relation_checked")
            if rc2 is not None and not rc_iso(rc, rc2):
                ctx.violation("rc-renumbering", {"rsmi": r, "renumbered": r2}, "renumbering the atom maps gives a non-isomorphic centre")
    for i, d in enumerate(corpus.pickled()):
        if ctx.mine(i) and not ctx.out_of_time(0.7):
            check_its(ctx, d["ITS"], "pickled corpus ITS graphs", ("pk", d.get("R-id"), i), {"pickled_index": i})
    n = 400 if ctx.quick else 12000
    for t in range(n):
        if ctx.out_of_time():
            ctx.count("synthetic_truncated_by_budget")
            break
        its = synthetic_its(rng)
        ctx.count("synthetic_its/" + STYLE[0])
        check_its(ctx, its, "synthetic ITS graphs (<=9 atoms; H-H bonds, product-only bonds, 0.5 order changes)",
                  ("syn", its_desc(its)), {"its": its_desc(its)})


def replay(ctx, v):
    from synkit.IO.chem_converter import rsmi_to_its
    w = v["witness"]
    if "rsmi" in w:
        check_its(ctx, rsmi_to_its(w["rsmi"]), "replay", ("replay",), {"rsmi": w["rsmi"]})
    elif "pickled_index" in w:
        check_its(ctx, corpus.pickled()[w["pickled_index"]]["ITS"], "replay", ("replay",), w)
    else:
        d = w["its"]
        its = nx.Graph()
        for n, el in d["elements"].items():
            its.add_node(int(n), element=el, charge=0, atom_map=int(n), typesGH=((el, False, 0, 0, []), (el, False, 0, 0, [])))
        for u, v2, o in d["edges"]:
            its.add_edge(u, v2, order=tuple(o), standard_order=o[0] - o[1])
        check_its(ctx, its, "replay", ("replay",), w)
