"""C05 — rule application depends on the chemistry only, not on how inputs are written.

Monitors: (i) offline relational checker over recorded standardised result sets: for one (template, substrate,
direction) the sets obtained under template renumberings, substrate rewritings and a repeated call must be equal;
comp subset-of all; bt == comp when comp is non-empty (else == all).  Every difference is classified by a further
differential execution with the symmetry pruning replaced by the identity.  (ii) history monitor: a sample of
executions is repeated in a fresh interpreter (same hash seed) — the in-process answer, which has the whole history
of earlier calls behind it, must equal the answer of the fresh process."""
from __future__ import annotations

import json
import os
import subprocess
import sys

from oracles import rdkit_rxn as R
from workloads import corpus
from checks import reactor_common as RC

RULE = (
    "one case = one (template, substrate, direction) with its renumbered / rewritten / repeated / per-strategy "
    "executions compared as sets; distinct = distinct case; non-trivial = >=1 result and >=2 raw matches"
)
REQUIRED = ["relation/renumber", "relation/rewrite", "relation/repeat", "relation/comp_subset_all", "relation/bt_vs_comp",
            "fresh_process_comparisons", "cases_with_pruning_active", "cases/own-template", "cases/foreign-template",
            "cases/synthetic"]
ASSUMPTIONS = [
    "variants are chemistry-preserving (every rewritten side is re-parsed and compared atom by atom before use)",
    "a numbering difference that disappears when the pruning step is the identity is attributed to the recorded pruning finding "
    "(known_findings.json, C05); any other difference is a new violation",
    "fresh-process re-execution uses the same PYTHONHASHSEED, so set-iteration order is identical and only history can differ",
]
SHARDS = {"quick": 8, "thorough": 16}
BUDGET_S = {"quick": 100, "thorough": 1000}
KF = "synreactor-pruning-numbering-dependence"

SYNTH = [
    ("[CH2:1]=[CH2:2].[BrH:3]>>[CH3:1][CH2:2][Br:3]", ["CC=C.Br", "C=CC.Br", "C=C.Br", "CC(C)=C.Br"]),
    ("[CH2:1]=[CH2:2].[H:3][O:4][H:5]>>[CH2:1]([H:3])[CH2:2][O:4][H:5]", ["CC=C.O", "C=CC.O", "C=C.O"]),
    ("[CH2:1]=[CH:2][CH:3]=[CH2:4].[CH2:5]=[CH2:6]>>[CH2:1]1[CH:2]=[CH:3][CH2:4][CH2:5][CH2:6]1",
     ["C=CC=CC.C=CC", "CC(=C)C=C.C=CC(=O)OC", "C=CC=C.C=C"]),
    ("[CH2:1]=[CH2:2].[CH2:3]=[CH2:4]>>[CH2:1]=[CH2:3].[CH2:2]=[CH2:4]", ["CC=C.C=CCC", "C=C.C=CC"]),
    ("[CH3:1][C:2](=[O:3])[OH:4].[CH3:5][OH:6]>>[CH3:1][C:2](=[O:3])[O:6][CH3:5].[OH2:4]", ["CC(=O)O.OCCO", "OC(=O)CC(=O)O.CO"]),
] + RC.SYNTH_PRUNE[6:]


def exec_one(sub, tpl, invert, strategy, flags, bypass=False):
    RC.BYPASS[0] = bypass
    try:
        return RC.run(sub, tpl, invert, strategy=strategy, flags=flags)
    finally:
        RC.BYPASS[0] = False


def classify(ctx, sub_a, tpl_a, sub_b, tpl_b, invert, strategy, flags):
    """the difference between executions a and b disappears with identity pruning -> recorded mechanism."""
    ua = exec_one(sub_a, tpl_a, invert, strategy, flags, bypass=True)
    ub = exec_one(sub_b, tpl_b, invert, strategy, flags, bypass=True)
    if "error" in ua or "error" in ub:
        return None
    return KF if ua["std"] == ub["std"] else None


KF_AROM = "bond-change-at-aromatic-atom-kekulisation"


def classify_aromatic(sub_a, tpl_a, sub_b, tpl_b, invert, strategy, flags):
    """second recorded mechanism: the rule changes a bond at an atom that is aromatic in the substrate.  The glued ITS keeps
    the ring's 1.5 orders and aromatic flags although the ring is no longer aromatic, so writing the product needs a
    Kekule assignment that RDKit picks by atom order: both executions build the same number of ITS graphs, but the
    reaction strings (or whether they can be written at all) differ with the writing of the substrate."""
    a = RC.run(sub_a, tpl_a, invert, strategy=strategy, flags=flags, want_its=True)
    b = RC.run(sub_b, tpl_b, invert, strategy=strategy, flags=flags, want_its=True)
    if "error" in a or "error" in b or len(a["its"]) != len(b["its"]):
        return None

    def touches_aromatic(g):
        for u, v, dd in g.edges(data=True):
            o = dd.get("order")
            if isinstance(o, tuple) and o[0] != o[1] and (g.nodes[u]["typesGH"][0][1] or g.nodes[v]["typesGH"][0][1]):
                return True
        return False

    return KF_AROM if any(touches_aromatic(g) for g in a["its"]) and any(touches_aromatic(g) for g in b["its"]) else None


def check_case(ctx, tpl_rsmi, tpl_kind, sub, d, flags, wit, tag, origin):
    from synkit.IO.chem_converter import rsmi_to_its
    from synkit.Graph.ITS.its_decompose import get_rc

    rng = ctx.rng
    invert = d == "bwd"

    def tpl_of(r):
        its = rsmi_to_its(r)
        return its if tpl_kind == "its" else get_rc(its)

    base = exec_one(sub, tpl_of(tpl_rsmi), invert, "all", flags)
    ctx.count("cases/" + origin)
    if "error" in base:
        ctx.count("cases_with_exception")
        return
    if base["n_pruned"] < base["n_raw"]:
        ctx.count("cases_with_pruning_active")
    RC.pruned_without_symmetry(ctx, base, wit)
    S0 = base["std"]
    nvar = 2 if ctx.quick else 4

    def differ(kind, other, sub_b, tpl_r, strategy="all"):
        if other["std"] == S0:
            return
        finding = classify(ctx, sub, tpl_of(tpl_rsmi), sub_b, tpl_of(tpl_r), invert, strategy, flags)
        if finding is not None:
            # the recorded mechanism is a deterministic function of the inputs: the disagreeing execution must
            # reproduce in a fresh interpreter (same hash seed); otherwise earlier calls influenced it
            job = {"tpl": tpl_r, "kind": tpl_kind, "sub": sub_b, "invert": invert, "strategy": strategy, "flags": flags}
            fresh = fresh_process(job)
            ctx.count("classifier_fresh_process_runs")
            if isinstance(fresh, list) and fresh != sorted(other["std"]):
                ctx.violation("depends-on-history", {**wit, "job": job, "in_process": sorted(other["std"])[:3], "fresh_process": fresh[:3]},
                              f"the same call gives {len(other['std'])} result(s) after earlier calls in this process but {len(fresh)} in a fresh interpreter")
                return
        if finding is None:
            finding = classify_aromatic(sub, tpl_of(tpl_rsmi), sub_b, tpl_of(tpl_r), invert, strategy, flags)
        lost, gained = sorted(S0 - other["std"]), sorted(other["std"] - S0)
        ctx.violation("depends-on-" + kind, {**wit, "relation": kind, "variant_template": tpl_r, "variant_substrate": sub_b,
                                              "lost": lost[:2], "gained": gained[:2]},
                      f"result set changes under {kind}: {len(lost)} lost, {len(gained)} gained (of {len(S0)})", finding=finding)

    # repeated call
    rep = exec_one(sub, tpl_of(tpl_rsmi), invert, "all", flags)
    ctx.count("relation/repeat")
    if "error" not in rep and rep["std"] != S0:
        ctx.violation("depends-on-repeat", {**wit, "relation": "repeat"}, "a repeated identical call returns a different result set")
    # template renumberings (new map numbers, hence new node ids and insertion order)
    for _ in range(nvar):
        r2 = corpus.renumber(tpl_rsmi, rng)
        o = exec_one(sub, tpl_of(r2), invert, "all", flags)
        ctx.count("relation/renumber")
        if "error" in o:
            ctx.violation("variant-exception", {**wit, "variant_template": r2}, f"renumbered template raises: {o['error']}")
            continue
        differ("template-numbering", o, sub, r2)
    # substrate rewritings
    for _ in range(nvar):
        s2 = corpus.rewrite_side(sub, rng) if "." in sub or len(sub) > 2 else None
        if not s2:
            continue
        o = exec_one(s2, tpl_of(tpl_rsmi), invert, "all", flags)
        ctx.count("relation/rewrite")
        if "error" in o:
            ctx.violation("variant-exception", {**wit, "variant_substrate": s2}, f"rewritten substrate raises: {o['error']}")
            continue
        differ("substrate-writing", o, s2, tpl_rsmi)
    # embedding cap: with a user-set embed_threshold the answer (complete, or empty because the cap was exceeded) must not
    # depend on how the substrate is written either
    if base["n_raw"] >= 2 and ("." in sub or len(sub) > 2):
        c0 = exec_one(sub, tpl_of(tpl_rsmi), invert, "comp", flags)
        n_comp = c0.get("n_raw", 0) if "error" not in c0 else 0
        cands = sorted({base["n_raw"] - 1, base["n_raw"], max(1, base["n_raw"] // 2), n_comp - 1, n_comp // 2} - {0, -1})
        picks_t = cands if origin == "synthetic" else [rng.choice(cands)]
    else:
        picks_t = []
    for thr in picks_t:
        fl_t = {**flags, "embed_threshold": thr}
        for strategy in ("all", "comp", "bt"):
            t0 = exec_one(sub, tpl_of(tpl_rsmi), invert, strategy, fl_t)
            if "error" in t0:
                continue
            for _ in range(2):
                s2 = corpus.rewrite_side(sub, rng)
                if not s2:
                    continue
                t1 = exec_one(s2, tpl_of(tpl_rsmi), invert, strategy, fl_t)
                if "error" in t1:
                    continue
                ctx.count("relation/threshold_rewrite")
                if t0["std"] and not t1["std"] or t1["std"] and not t0["std"]:
                    ctx.count("threshold_cases_cap_hit_on_one_side")
                if not t0["std"]:
                    ctx.count("threshold_cases_empty")
                if t1["std"] != t0["std"]:
                    finding = classify(ctx, sub, tpl_of(tpl_rsmi), s2, tpl_of(tpl_rsmi), invert, strategy, fl_t) \
                        or classify_aromatic(sub, tpl_of(tpl_rsmi), s2, tpl_of(tpl_rsmi), invert, strategy, fl_t)
                    ctx.violation("depends-on-substrate-writing-under-cap", {**wit, "relation": "threshold", "embed_threshold": thr, "strategy": strategy,
                                                                              "variant_substrate": s2, "n": [len(t0["std"]), len(t1["std"])]},
                                  f"with embed_threshold={thr} ({strategy}) the result set changes when the substrate is rewritten: {len(t0['std'])} vs {len(t1['std'])} reactions",
                                  finding=finding)
                    break
    # the component-aware and fallback strategies must not depend on the writing of the substrate either
    if "." in sub:
        for strategy in ("comp", "bt"):
            c_a = exec_one(sub, tpl_of(tpl_rsmi), invert, strategy, flags)
            s2 = corpus.rewrite_side(sub, rng)
            if "error" in c_a or not s2:
                continue
            c_b = exec_one(s2, tpl_of(tpl_rsmi), invert, strategy, flags)
            if "error" in c_b:
                continue
            ctx.count("relation/rewrite_" + strategy)
            if c_a["std"] != c_b["std"]:
                finding = classify(ctx, sub, tpl_of(tpl_rsmi), s2, tpl_of(tpl_rsmi), invert, strategy, flags) \
                    or classify_aromatic(sub, tpl_of(tpl_rsmi), s2, tpl_of(tpl_rsmi), invert, strategy, flags)
                ctx.violation("depends-on-substrate-writing", {**wit, "relation": "rewrite", "strategy": strategy, "variant_substrate": s2,
                                                                "n": [len(c_a["std"]), len(c_b["std"])]},
                              f"{strategy}: result set changes when the substrate is rewritten ({len(c_a['std'])} vs {len(c_b['std'])} reactions)", finding=finding)
    # strategy lattice
    comp = exec_one(sub, tpl_of(tpl_rsmi), invert, "comp", flags)
    bt = exec_one(sub, tpl_of(tpl_rsmi), invert, "bt", flags)
    if "error" not in comp and "error" not in bt:
        ctx.count("relation/comp_subset_all")
        if not comp["std"] <= S0:
            ua = exec_one(sub, tpl_of(tpl_rsmi), invert, "all", flags, bypass=True)
            uc = exec_one(sub, tpl_of(tpl_rsmi), invert, "comp", flags, bypass=True)
            finding = KF if ("error" not in ua and "error" not in uc and uc["std"] <= ua["std"]) else None
            ctx.violation("comp-not-subset-of-all", {**wit, "extra": sorted(comp["std"] - S0)[:2]},
                          "component-aware strategy returns reactions the exhaustive strategy does not", finding=finding)
        ctx.count("relation/bt_vs_comp")
        exp = comp["std"] if comp["std"] else S0
        if bt["std"] != exp:
            ub = exec_one(sub, tpl_of(tpl_rsmi), invert, "bt", flags, bypass=True)
            uc = exec_one(sub, tpl_of(tpl_rsmi), invert, "comp", flags, bypass=True)
            ua = exec_one(sub, tpl_of(tpl_rsmi), invert, "all", flags, bypass=True)
            ok = "error" not in ub and ub["std"] == (uc["std"] if uc.get("std") else ua.get("std"))
            ctx.violation("bt-not-fallback", {**wit, "bt": len(bt["std"]), "comp": len(comp["std"]), "all": len(S0)},
                          "fallback strategy is neither the component-aware result nor (when that is empty) the exhaustive one",
                          finding=KF if ok else None)
    ctx.case(("c05", tpl_rsmi, tpl_kind, sub, d), nontrivial=len(S0) >= 1 and base["n_raw"] >= 2,
             sample={"space": tag, **{k: v for k, v in wit.items() if k not in ("template",)}, "results": len(S0), "raw_matches": base["n_raw"]}
             if (ctx.evaluations < 2 or rng.random() < 0.01) else None)
    return base


FRESH_SNIPPET = r"""
import sys, json
sys.path[:0] = json.loads(sys.argv[1])
from vmon.core import quiet; quiet()
from checks import reactor_common as RC
from synkit.IO.chem_converter import rsmi_to_its
from synkit.Graph.ITS.its_decompose import get_rc
job = json.loads(sys.argv[2])
its = rsmi_to_its(job["tpl"]); tpl = its if job["kind"] == "its" else get_rc(its)
out = RC.run(job["sub"], tpl, job["invert"], strategy=job["strategy"], flags=job["flags"])
print("RESULT" + json.dumps(sorted(out.get("std", [])) if "error" not in out else {"error": out["error"]}))
"""


def fresh_process(job):
    env = dict(os.environ)
    p = subprocess.run([sys.executable, "-c", FRESH_SNIPPET, json.dumps(sys.path[:4]), json.dumps(job)],
                       env=env, stdout=subprocess.PIPE, stderr=subprocess.DEVNULL, text=True, timeout=600)
    for line in p.stdout.splitlines():
        if line.startswith("RESULT"):
            return json.loads(line[6:])
    return None


def run(ctx):
    RC.install()
    RC.RUN_TIMEOUT_S[0] = 10 if ctx.quick else 45
    rng = ctx.rng
    rx = [x for x in RC.rxns() if RC.flags_for(x["mode"])]
    history_jobs = []
    # own-template cases
    cases = [(x, kind, d) for x in rx for kind in ("rc", "its") if (kind == "its" or x["cc"]) for d in ("fwd", "bwd")]
    step = 14 if ctx.quick else 1
    for i, (x, kind, d) in enumerate(cases):
        if not ctx.mine(i) or ((i // ctx.nshards) % step != ctx.seed % step and x["rid"] < 10000):
            continue
        if ctx.out_of_time(0.6):
            ctx.count("own_truncated_by_budget")
            break
        sub = x["a"] if d == "fwd" else x["b"]
        check_case(ctx, x["rsmi"], kind, sub, d, RC.flags_for(x["mode"]),
                   {"template_rid": x["rid"], "kind": kind, "dir": d, "substrate": sub}, "own-template (corpus)", "own-template")
        history_jobs.append({"tpl": x["rsmi"], "kind": kind, "sub": sub, "invert": d == "bwd", "strategy": "all", "flags": RC.flags_for(x["mode"])})
    # foreign-template cases
    for t in range(20 if ctx.quick else 1200):
        if ctx.out_of_time(0.75):
            ctx.count("foreign_truncated_by_budget")
            break
        xi, xj = rng.choice(rx), rng.choice(rx)
        if xi["mode"] != xj["mode"] or not xi["cc"]:
            continue
        d = rng.choice(["fwd", "bwd"])
        sub = xj["a"] if d == "fwd" else xj["b"]
        check_case(ctx, xi["rsmi"], "rc", sub, d, RC.flags_for(xi["mode"]),
                   {"template_rid": xi["rid"], "kind": "rc", "dir": d, "substrate_rid": xj["rid"], "substrate": sub}, "foreign-template (corpus)", "foreign-template")
    # synthetic symmetric-site templates (same rule under several numberings in one process)
    for ti, (tpl, subs) in enumerate(SYNTH):
        mode = R.hmode(tpl)
        fl = RC.flags_for(mode)
        if fl is None:
            continue
        for si, sub in enumerate(subs):
            if not ctx.mine(ti * 7 + si):
                continue
            for d in ("fwd",):
                check_case(ctx, tpl, "its", sub, d, fl, {"template": tpl, "kind": "its", "dir": d, "substrate": sub},
                           "synthetic symmetric-site templates", "synthetic")
                # the same rule again under a permuted numbering, after the first (history for caches keyed by rule content)
                r2 = corpus.renumber(tpl, rng)
                history_jobs.append({"tpl": r2, "kind": "its", "sub": sub, "invert": False, "strategy": "all", "flags": fl})
                history_jobs.append({"tpl": tpl, "kind": "its", "sub": sub, "invert": False, "strategy": "all", "flags": fl})
    # ---- history monitor: in-process (after everything above) vs fresh interpreter ---- #
    rng.shuffle(history_jobs)
    synth_jobs = [j for j in history_jobs if j["tpl"].count(":") < 12]
    picks = (synth_jobs[:3] + history_jobs[:3]) if ctx.quick else (synth_jobs[:10] + history_jobs[:20])
    for job in picks:
        if ctx.out_of_time(1.5):
            break
        from synkit.IO.chem_converter import rsmi_to_its
        from synkit.Graph.ITS.its_decompose import get_rc
        its = rsmi_to_its(job["tpl"])
        tpl = its if job["kind"] == "its" else get_rc(its)
        here = exec_one(job["sub"], tpl, job["invert"], job["strategy"], job["flags"])
        fresh = fresh_process(job)
        if fresh is None or "error" in here or isinstance(fresh, dict):
            ctx.count("fresh_process_inconclusive")
            continue
        ctx.count("fresh_process_comparisons")
        if sorted(here["std"]) != fresh:
            ctx.violation("depends-on-history", {"job": job, "in_process": sorted(here["std"])[:3], "fresh_process": fresh[:3]},
                          f"the answer after {ctx.evaluations} earlier cases in this process ({len(here['std'])} results) differs from the answer of a fresh interpreter ({len(fresh)} results)")


def replay(ctx, v):
    RC.install()
    w = v["witness"]
    if "job" in w:
        job = w["job"]
        print("fresh process:", fresh_process(job))
        ctx.violation("depends-on-history", w, "history witness: re-run the check to reproduce the in-process history")
        return
    if "template" in w:
        tpl = w["template"]
        fl = RC.flags_for(R.hmode(tpl))
    else:
        x = RC.rx_by_id(w["template_rid"])
        tpl, fl = x["rsmi"], RC.flags_for(x["mode"])
    for _ in range(6):
        check_case(ctx, tpl, w["kind"], w["substrate"], w["dir"], fl, {k: w[k] for k in w if k in ("template_rid", "template", "kind", "dir", "substrate")}, "replay", "own-template")
