"""C17 — stoichiometric analysis agrees with exact linear algebra.

Oracle: exact integer matrix from the model network, Fraction rank, certified
positivity decisions (oracles.exactla).  The real functions are called on the
real CRNHyperGraph (and on its exported bipartite graph for a sub-sample)."""
from __future__ import annotations

from fractions import Fraction

from oracles import exactla as X
from workloads import crn as W

RULE = (
    "one case = one model network analysed by the real stoich functions and by the exact oracle; "
    "distinct = distinct reaction list; non-trivial = matrix with >=1 non-zero column and "
    "(kernel dimension >= 1 on either side or >= 2 reactions)"
)
REQUIRED = ["rank_checked", "left_kernel_checked", "right_kernel_checked", "conservative_true",
            "conservative_false", "consistent_true", "consistent_false", "witness_checked",
            "build_S_checked", "summary_checked", "kernel_dim_ge2_no_definite_column", "graph_tagged_by_bipartite_only", "graph_tagged_by_kind_only", "history_after_remove_species",
            "integer_law_checked", "integer_law_with_entries_ge_3", "svd_fallback_wide_matrix"]
ASSUMPTIONS = [
    "float tolerances: kernel residual <= 1e-9 relative, witness residual <= 1e-6 relative, witness entries > 0",
    "positivity decisions: z3 proposes, Fraction arithmetic verifies (positive vector or Stiemke alternative)",
    "build_S columns compared with incidence_matrix as a multiset (column order follows rule labels, not ids)",
]
SHARDS = {"quick": 8, "thorough": 16}
BUDGET_S = {"quick": 60, "thorough": 600}

def classify_conservativity_miss(H):
    """attribute a false 'not conservative' to the recorded LP-stage mechanisms of
    _positive_conservation_law_from_basis, by re-running the code's own LP (c=1, -B a <= -eps,
    a free) on the code's own basis.  Preconditions: kernel dim >= 2 and no sign-definite basis
    column (otherwise the LP stage is never entered).  Returns a finding key or None:
      conservativity-lp-unbounded         the LP objective is unbounded (status 3)
      conservativity-lp-margin-rejected   the LP is solved (status 0), but the margin eps=1e-8 is at /
                                          below the solver's feasibility tolerance and the optimum lies on
                                          the margin, so the strict re-check m > eps rejects the solver's
                                          own point (all m_i within 1e-6 of the margin or above)"""
    import numpy as np
    from scipy.optimize import linprog
    from synkit.CRN.Props import stoich

    B = np.atleast_2d(stoich.left_nullspace(H))
    if B.size == 0 or B.shape[1] < 2:
        return None
    eps = 1e-8
    for j in range(B.shape[1]):
        col = B[:, j]
        if np.all(col > eps) or np.all(col < -eps):
            return None
    res = linprog(np.ones(B.shape[1]), A_ub=-B, b_ub=-eps * np.ones(B.shape[0]),
                  bounds=[(None, None)] * B.shape[1], method="highs")
    if res.status == 3:
        return "conservativity-lp-unbounded"
    if res.status == 0 and res.x is not None:
        m = B @ res.x
        if not np.all(m > eps) and np.all(m > eps - 1e-6):
            return "conservativity-lp-margin-rejected"
    return None


def check_network(ctx, net, tag="", via_graph=False):
    import numpy as np
    from synkit.CRN.Props import stoich

    H = W.build_hg(net)
    sp, S = W.exact_S(net)
    n_s, n_r = len(sp), len(net)
    ST = X.transpose(S) if S else []
    wit = {"net": net, "reactions": W.fmt_net(net)}
    obj = H
    if via_graph:
        from synkit.CRN.Hypergraph.conversion import hypergraph_to_bipartite
        obj = hypergraph_to_bipartite(H, integer_ids=False)
        ctx.count("via_exported_graph")
        # the documented graph conventions accept either tag: strip one of them on a rotating basis
        mode = (len(net) + sum(len(a) + len(b) for _, a, b in net)) % 3
        if mode:
            drop = "bipartite" if mode == 1 else "kind"
            for _, dd in obj.nodes(data=True):
                dd.pop(drop, None)
            ctx.count("graph_tagged_by_" + ("kind" if mode == 1 else "bipartite") + "_only")

    def bad(kind, msg, **kw):
        ctx.violation(kind, wit, msg, **kw)

    # ---- matrix ---- #
    so, ro, Sm = stoich.build_S(obj)
    ctx.count("build_S_checked")
    if list(so) != sp:
        bad("build_S", f"rows {so} != sorted species {sp}")
        return
    if Sm.shape != (n_s, n_r):
        bad("build_S", f"shape {Sm.shape} != {(n_s, n_r)}")
        return
    cols_real = sorted(tuple(int(round(x)) for x in Sm[:, j]) for j in range(n_r))
    cols_want = sorted(tuple(S[i][j] for i in range(n_s)) for j in range(n_r))
    if cols_real != cols_want or not np.allclose(Sm, np.round(Sm)):
        bad("build_S", f"columns {cols_real} != produced-consumed {cols_want}")
        return
    so2, eo2, inc = H.incidence_matrix(sparse=False)
    cols_inc = sorted(tuple(int(x) for x in inc[:, j]) for j in range(inc.shape[1]))
    if so2 != sp or cols_inc != cols_want:
        bad("incidence", f"incidence_matrix columns {cols_inc} != {cols_want}")
        return
    # ---- rank ---- #
    r_exact = X.rank(S)
    r_real = stoich.stoichiometric_rank(obj)
    ctx.count("rank_checked")
    if r_real != r_exact:
        bad("rank", f"stoichiometric_rank={r_real} exact={r_exact}")
    # ---- the nullspace fallback (used when SciPy is not installed) on S and S^T: full kernel dimension, annihilates the matrix ---- #
    Sf0 = np.array(S, dtype=float).reshape(n_s, n_r)
    for nm_, A_, dim_ in (("right", Sf0, n_r - r_exact), ("left", Sf0.T, n_s - r_exact)):
        if A_.size == 0:
            continue
        Bk = stoich._svd_null_space(A_)
        ctx.count("svd_fallback_checked")
        if A_.shape[1] > A_.shape[0]:
            ctx.count("svd_fallback_wide_matrix")
        if Bk.shape != (A_.shape[1], dim_) or (dim_ and np.abs(A_ @ Bk).max() > 1e-9 * max(1.0, np.abs(A_).max())):
            bad("kernel-dim", f"nullspace fallback for the {nm_} kernel returns shape {Bk.shape}, exact dimension {dim_} (matrix {A_.shape})")
    # ---- integer conservation laws: with a one-dimensional left kernel the law is unique up to scale and rational,
    # so the integer vector returned has to annihilate S exactly ---- #
    if n_s - r_exact == 1:
        laws = stoich.integer_conservation_laws(obj)
        ctx.count("integer_law_checked")
        okl = isinstance(laws, list) and len(laws) == 1 and len(laws[0]) == n_s and any(laws[0])
        if okl:
            m = [int(x) for x in laws[0]]
            okl = all(sum(m[i] * int(S[i][j]) for i in range(n_s)) == 0 for j in range(n_r))
            if any(abs(x) >= 3 for x in m):
                ctx.count("integer_law_with_entries_ge_3")
        if not okl:
            bad("integer-law", f"integer_conservation_laws returned {laws}: not an integer vector m with m·S = 0 (the left kernel is one-dimensional)")
    # ---- kernels ---- (right-kernel vectors are indexed in the code's own column order,
    # so the already verified matrix returned by build_S is used for the residual)
    Sf = np.array(S, dtype=float).reshape(n_s, n_r)
    for name, B, dim, M in (("left", stoich.left_nullspace(obj), n_s - r_exact, Sf.T),
                            ("right", stoich.right_nullspace(obj), n_r - r_exact, np.round(Sm))):
        B = np.atleast_2d(B)
        k = B.shape[1] if B.size else 0
        ctx.count(f"{name}_kernel_checked")
        if k != dim:
            bad("kernel-dim", f"{name} kernel has {k} vectors, exact dimension {dim}")
            continue
        if k:
            if B.shape[0] != M.shape[1]:
                bad("kernel-dim", f"{name} kernel vectors have length {B.shape[0]}")
                continue
            res = np.abs(M @ B).max() / max(1.0, np.abs(M).max())
            if res > 1e-9:
                bad("kernel-residual", f"{name} kernel basis does not annihilate S (residual {res:.2e})")
            if np.linalg.matrix_rank(B) != k:
                bad("kernel-dim", f"{name} kernel 'basis' is linearly dependent")
    # semiflow wrappers (Petri vocabulary for the same kernels)
    from synkit.CRN.Petri.semiflows import find_p_semiflows, find_t_semiflows
    for name, Bm, dim, M in (("P-semiflows", find_p_semiflows(obj), n_s - r_exact, Sf.T), ("T-semiflows", find_t_semiflows(obj), n_r - r_exact, np.round(Sm))):
        Bm = np.atleast_2d(Bm)
        k = Bm.shape[1] if Bm.size else 0
        ctx.count("semiflows_checked")
        if k != dim or (k and np.abs(M @ Bm).max() / max(1.0, np.abs(M).max()) > 1e-9):
            bad("semiflows", f"{name}: {k} vectors for exact dimension {dim}, or a vector does not annihilate S")
    # ---- conservativity ---- #
    cons_exact, cert = X.positive_kernel_vector(ST, n_s)
    if n_r == 0:
        cons_exact = True
    cons_real = stoich.is_conservative(obj)
    flag2, m = stoich.compute_conservativity(obj)
    ctx.count("conservative_true" if cons_exact else "conservative_false")
    # was it a "hard" instance (kernel dim >= 2 and no definite column)?
    if n_s - r_exact >= 2:
        Bl = np.atleast_2d(stoich.left_nullspace(obj))
        if not any(np.all(Bl[:, j] > 1e-8) or np.all(Bl[:, j] < -1e-8) for j in range(Bl.shape[1])):
            ctx.count("kernel_dim_ge2_no_definite_column")
    for label, got in (("is_conservative", cons_real), ("compute_conservativity", flag2)):
        if (got is True) != cons_exact or (got is False and cons_exact):
            finding = None
            if got is False and cons_exact:
                finding = classify_conservativity_miss(H)
            bad("conservativity", f"{label}={got} but exact answer is {cons_exact} (certificate {[str(c) for c in cert]})",
                finding=finding)
    if m is not None:
        ctx.count("witness_checked")
        m = np.asarray(m, dtype=float)
        if m.shape != (n_s,) or not np.all(m > 0):
            bad("witness", f"conservation-law witness not strictly positive: {m.tolist()}")
        elif n_r and np.abs(m @ Sf).max() > 1e-6 * max(1.0, np.abs(m).max()):
            bad("witness", f"witness does not annihilate S: residual {np.abs(m @ Sf).max():.2e}")
    # ---- consistency ---- #
    if n_r:
        cst_exact, cert2 = X.positive_kernel_vector(S, n_r)
        cst_real = stoich.is_consistent(obj)
        ctx.count("consistent_true" if cst_exact else "consistent_false")
        if (cst_real is True) != cst_exact or (cst_real is False and cst_exact):
            bad("consistency", f"is_consistent={cst_real} but exact answer is {cst_exact} (certificate {[str(c) for c in cert2]})")
    else:
        cst_exact = None
    # ---- summary ---- #
    sm = stoich.summary(obj)
    ctx.count("summary_checked")
    exp = (n_s, n_r, r_exact, n_s - r_exact, n_r - r_exact)
    got = (sm.n_species, sm.n_reactions, sm.rank, sm.dim_left_kernel, sm.dim_right_kernel)
    if got != exp:
        bad("summary", f"summary {got} != exact {exp}")
    if sm.is_conservative != cons_real or (n_r and sm.is_consistent != cst_real):
        bad("summary", f"summary flags ({sm.is_conservative},{sm.is_consistent}) differ from the functions ({cons_real},{cst_real})")
    # history: the same store analysed again after an in-place edit that keeps every reaction (remove_species)
    if not via_graph:
        cand = [s for s in sp if all(len(dict(a)) + len(dict(b)) - (s in dict(a)) - (s in dict(b)) >= 1 for _, a, b in net)]
        if cand:
            s0 = cand[len(net) % len(cand)]
            H.remove_species(s0)
            net2 = [(r, tuple(x for x in a if x[0] != s0), tuple(x for x in b if x[0] != s0)) for r, a, b in net]
            sp2, S2 = W.exact_S(net2)
            so3, _, Sm3 = stoich.build_S(H)
            ctx.count("history_after_remove_species")
            cols3 = sorted(tuple(int(round(x)) for x in Sm3[:, j]) for j in range(Sm3.shape[1]))
            want3 = sorted(tuple(S2[i][j] for i in range(len(sp2))) for j in range(len(net2)))
            if list(so3) != sp2 or cols3 != want3 or stoich.stoichiometric_rank(H) != X.rank(S2):
                bad("stale-after-edit", f"after remove_species({s0!r}) the analysis still answers for the old network: rows {list(so3)} columns {cols3}, expected rows {sp2} columns {want3}")
    nontrivial = any(any(c) for c in S) and (n_s - r_exact >= 1 or n_r - r_exact >= 1 or n_r >= 2)
    ctx.case(("net", net, via_graph), nontrivial=nontrivial,
             sample={"space": tag, "reactions": W.fmt_net(net), "rank": r_exact,
                     "conservative": cons_exact, "consistent": cst_exact}
             if (ctx.evaluations < 2 or ctx.rng.random() < 0.002) else None)


def run(ctx):
    rng = ctx.rng
    for name, net in W.TEXTBOOK.items():
        if ctx.mine(hash(name) % 97):
            pass
        if ctx.shard == 0:
            check_network(ctx, net, tag="textbook:" + name)
            check_network(ctx, net, tag="textbook:" + name, via_graph=True)
    idx = 0
    if ctx.quick:
        spaces = [("3sp,<=2rxn,coeff0-1", (0, 1), 2)]
    else:
        spaces = [("3sp,<=2rxn,coeff0-2", (0, 1, 2), 2)]
    if not ctx.quick:
        for net in W.enum_networks(("A", "B", "C", "D"), (0, 1), 2):
            idx += 1
            if ctx.mine(idx):
                check_network(ctx, net, tag="4sp,<=2rxn,coeff0-1")
        ctx.exhaustive["4sp,<=2rxn,coeff0-1"] = True
    for tag, coeffs, k in spaces:
        for net in W.enum_networks(("A", "B", "C"), coeffs, k):
            idx += 1
            if ctx.mine(idx):
                check_network(ctx, net, tag=tag)
        ctx.exhaustive[tag] = True
    if ctx.quick:
        rx = W.all_reactions(("A", "B", "C"), (0, 1, 2))
        for _ in range(250):
            check_network(ctx, [rng.choice(rx), rng.choice(rx)], tag="sample 3sp,2rxn,coeff0-2")
    # amplifying chains: source -> X0, a X0 -> b X1, ..., Xk -> sink with multi-digit yields; the positive steady flux
    # exists and spans several orders of magnitude with non-dyadic ratios (1/3, 1/7 ...)
    for t in range(12 if ctx.quick else 150):
        k = rng.randint(2, 3)
        names = [f"X{j}" for j in range(k + 1)]
        net = [W.rxn({}, {names[0]: 1})]
        for j in range(k):
            net.append(W.rxn({names[j]: rng.choice([1, 3, 3, 7, 9])}, {names[j + 1]: rng.choice([10, 100, 100, 1000, 30, 700])}))
        if rng.random() < 0.8:
            net.append(W.rxn({names[-1]: 1}, {}))       # with the sink the network is consistent
        if rng.random() < 0.3:
            rng.shuffle(net)
        ctx.count("amplifying_chain_networks")
        check_network(ctx, net, tag="amplifying chains (multi-digit yields)")
    # long leaky amplifying chains A0 -> c A1 -> ... -> A(n-1) -> (nothing): S is square and of full rank, so both kernels
    # are trivial, while its singular values spread over almost eight orders of magnitude (c^(n-1) < 1e8): a rank
    # tolerance that is too generous invents kernel vectors here and nowhere in small networks
    for n_, c_ in ((10, 4), (12, 4), (13, 4), (14, 4), (16, 3), (13, 3)):
        if not ctx.mine(n_ * 7 + c_):
            continue
        names = [f"A{j}" for j in range(n_)]
        net = [W.rxn({names[j]: 1}, {names[j + 1]: c_}) for j in range(n_ - 1)] + [W.rxn({names[-1]: 1}, {})]
        if rng.random() < 0.5:
            rng.shuffle(net)
        ctx.count("long_leaky_chain_networks")
        check_network(ctx, net, tag="long leaky amplifying chains (full-rank S, wide singular spectrum)")
    n = 250 if ctx.quick else 5000
    for i in range(n):
        if ctx.out_of_time():
            ctx.count("random_truncated_by_budget")
            break
        flavour = rng.random()
        if flavour < 0.25:  # closed, reversible-rich (conservative candidates)
            net = W.random_network(rng, n_species=rng.randint(2, 7), n_rxn=rng.randint(1, 6),
                                   max_coeff=rng.choice([1, 2, 3]), p_empty=0.0, p_reverse=0.5)
        elif flavour < 0.5:  # open systems
            net = W.random_network(rng, n_species=rng.randint(2, 6), n_rxn=rng.randint(2, 6),
                                   max_coeff=rng.choice([1, 2, 3]), p_empty=0.3, p_reverse=0.2)
        elif flavour < 0.7:  # sparse unimolecular (kernel dim > 1 likely)
            net = W.random_network(rng, n_species=rng.randint(3, 7), n_rxn=rng.randint(1, 4),
                                   max_coeff=1, p_empty=0.0, p_reverse=0.1, max_side=2)
        else:
            net = W.random_network(rng, n_species=rng.randint(2, 7), n_rxn=rng.randint(1, 6),
                                   max_coeff=3, rules=["r", "k", "a"])
        check_network(ctx, net, tag="random", via_graph=(i % 7 == 0))
        ctx.count("random_networks")


def replay(ctx, v):
    w = v["witness"]
    net = [(r, tuple(tuple(x) for x in a), tuple(tuple(x) for x in b)) for r, a, b in w["net"]]
    check_network(ctx, net, tag="replay")
