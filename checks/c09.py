"""C09 — reaction normal forms preserve the reaction; equivalence checks are exact.

Monitors: CanonRSMI (wl and nauty back-ends): output atom-map-equivalent to the input (reference-ITS
isomorphism, RDKit-only reader), same unmapped sides, fixed point, and independence of numbering /
atom order under the back-end's own distinguishability precondition; Standardize.fit idempotent and
invariant; AAMValidator.smiles_check verdict == independently computed reference ITS / centre
isomorphism (renumberings accepted, adversarial transpositions judged by the reference);
BalanceReactionCheck.rsmi_balance_check == independent element(+H)/charge count comparison."""
from __future__ import annotations

import re

import networkx as nx
from networkx.algorithms.isomorphism import GraphMatcher

from oracles import rdkit_rxn as R
from workloads import corpus

RULE = (
    "one case = one corpus reaction with its variants (renumberings, SMILES rewritings, fragment shuffles, centre "
    "transpositions, unbalanced variants) pushed through the four tools; distinct = distinct reaction; non-trivial = "
    ">=1 changed bond and >=6 atoms"
)
REQUIRED = ["canon_checked/wl", "canon_checked/nauty", "fixed_point_checked", "invariance_checked/nauty",
            "invariance_checked/wl", "standardize_checked", "validator_renumberings", "validator_transpositions",
            "validator_rejections_expected", "validator_acceptances_of_transpositions", "balance_true", "balance_false",
            "reactions_with_ties_and_10plus_atoms", "h_species_balance_cases", "shared_instance_checked", "validator_record_entry_points",
            "notation_balance_checked", "notation_dative_right_arrow", "notation_dative_left_arrow", "lookalike_reactions_distinguishable", "big_symmetric_rejections_expected"]
ASSUMPTIONS = [
    "numbering independence of CanonRSMI is only demanded when all reactant atoms are distinguishable for the back-end: "
    "nauty - trivial automorphism group of the reactant graph; wl - discrete 3-iteration WL colouring (recomputed in the harness)",
    "validator reference labels: per side (element, aromatic, total H, charge, sorted neighbour elements) and the bond order pair",
    "balance: both sides must parse; counts include implicit and explicit hydrogens and the total formal charge",
]
SHARDS = {"quick": 8, "thorough": 16}
BUDGET_S = {"quick": 80, "thorough": 800}


def ref_validator_its(r):
    """reference ITS with the label set the validator compares (typesGH incl. neighbour elements)."""
    a, b = r.split(">>")
    A, B = R.side_tables(a), R.side_tables(b)
    if A is None or B is None or set(A[0]) != set(B[0]):
        return None

    def nb(side, k):
        return tuple(sorted(side[0][x][0] for e in side[1] if k in e for x in e if x != k))

    g = nx.Graph()
    for k in A[0]:
        la = (A[0][k][0], A[0][k][3], A[0][k][1], A[0][k][2], nb(A, k))
        lb = (B[0][k][0], B[0][k][3], B[0][k][1], B[0][k][2], nb(B, k))
        g.add_node(k, lab=(la, lb))
    for e in set(A[1]) | set(B[1]):
        i, j = tuple(e)
        g.add_edge(i, j, o=(A[1].get(e, 0.0), B[1].get(e, 0.0)))
    return g


def ref_rc(g):
    rc = nx.Graph()
    for u, v, d in g.edges(data=True):
        hh = g.nodes[u]["lab"][0][0] == "H" and g.nodes[v]["lab"][0][0] == "H"
        if d["o"][0] != d["o"][1] or hh:
            rc.add_node(u, **g.nodes[u])
            rc.add_node(v, **g.nodes[v])
            rc.add_edge(u, v, **d)
    return rc


def iso(a, b):
    return GraphMatcher(a, b, node_match=lambda x, y: x["lab"] == y["lab"], edge_match=lambda x, y: x["o"] == y["o"]).is_isomorphic()


def distinguishable(r, backend):
    """decided from the input with the harness' own computation."""
    from synkit.IO.chem_converter import rsmi_to_graph
    G, _ = rsmi_to_graph(r)
    attrs = ("element", "aromatic", "charge", "hcount")
    if backend == "nauty":
        nm = lambda x, y: all(x.get(k) == y.get(k) for k in attrs)
        em = lambda x, y: x.get("order") == y.get("order")
        it = GraphMatcher(G, G, node_match=nm, edge_match=em).isomorphisms_iter()
        next(it)
        return next(it, None) is None
    from networkx.algorithms.graph_hashing import weisfeiler_lehman_subgraph_hashes
    g2 = G.copy()
    for n, d in g2.nodes(data=True):
        d["_i"] = tuple(d.get(a, "") for a in attrs)
    h = weisfeiler_lehman_subgraph_hashes(g2, node_attr="_i", edge_attr="order", iterations=3)
    cols = [v[-1] for v in h.values()]
    return len(set(cols)) == len(cols)


def transpose_product_maps(r, i, j):
    a, b = r.split(">>")
    b2 = re.sub(r":(\d+)\]", lambda m: ":%d]" % ({i: j, j: i}.get(int(m.group(1)), int(m.group(1)))), b)
    return a + ">>" + b2


_shared = {}


def check_canon(ctx, r, variants):
    from synkit.Chem.Reaction.canon_rsmi import CanonRSMI

    ref = R.reference_its(r)
    a, b = r.split(">>")
    sides = (R.fragments_canonical(a), R.fragments_canonical(b))
    natoms = ref.number_of_nodes() if ref is not None else 0
    for backend in ("wl", "nauty"):
        try:
            c = CanonRSMI(backend=backend).canonicalise(r).canonical_rsmi
        except Exception as e:
            ctx.violation("canon-exception", {"rsmi": r, "backend": backend}, f"canonicalise raised {type(e).__name__}: {e}")
            continue
        ctx.count("canon_checked/" + backend)
        wit = {"rsmi": r, "backend": backend, "canonical": c}
        if not c or "None" in c:
            ctx.violation("canon-none", wit, f"canonical reaction is {c!r}")
            continue
        ca, cb = c.split(">>")
        if (R.fragments_canonical(ca), R.fragments_canonical(cb)) != sides:
            ctx.violation("canon-sides", wit, "canonicalisation changed the unmapped reactants/products")
            continue
        rc_ = R.reference_its(c)
        if rc_ is None or ref is None or not R.its_iso(ref, rc_):
            ctx.violation("canon-mapping", wit, "canonical reaction is not atom-map-equivalent to the input (reference ITS not isomorphic)")
            continue
        # history: one long-lived canonicaliser instance (re-used for every reaction of this shard, and called twice
        # on this one) must answer like a fresh instance
        sh = _shared.setdefault(backend, CanonRSMI(backend=backend))
        h1 = sh.canonicalise(r).canonical_rsmi
        h2 = sh.canonicalise(r).canonical_rsmi
        ctx.count("shared_instance_checked")
        if h1 != c or h2 != c:
            ctx.violation("canon-depends-on-history", {**wit, "shared_first": h1, "shared_second": h2},
                          f"{backend}: a re-used CanonRSMI instance returns a different canonical reaction than a fresh one")
        c2 = CanonRSMI(backend=backend).canonicalise(c).canonical_rsmi
        ctx.count("fixed_point_checked")
        if c2 != c:
            ctx.violation("canon-not-fixed-point", {**wit, "second": c2}, "canonicalising the canonical reaction changes it")
        dist = distinguishable(r, backend)
        if not dist and natoms >= 10:
            ctx.count("reactions_with_ties_and_10plus_atoms")
        if dist:
            for kind, v in variants:
                if kind == "fragments":
                    pass
                cv = CanonRSMI(backend=backend).canonicalise(v).canonical_rsmi
                ctx.count("invariance_checked/" + backend)
                if cv != c:
                    ctx.violation("canon-numbering-dependent", {**wit, "variant": v, "variant_kind": kind, "variant_canonical": cv},
                                  f"{backend}: a {kind} variant of a reaction with distinguishable reactant atoms gets a different canonical form")
                    break


def check_standardize(ctx, r, variants):
    from synkit.Chem.Reaction.standardize import Standardize
    s = Standardize()
    f = s.fit(r)
    ctx.count("standardize_checked")
    wit = {"rsmi": r, "fit": f}
    if f is None:
        ctx.violation("standardize-none", wit, "Standardize.fit returned None for a well-formed reaction")
        return
    if s.fit(f) != f:
        ctx.violation("standardize-not-idempotent", {**wit, "second": s.fit(f)}, "Standardize.fit is not idempotent")
    fa, fb = f.split(">>")
    a, b = r.split(">>")
    if R.fragments_canonical(fa) != R.fragments_canonical(a) or R.fragments_canonical(fb) != R.fragments_canonical(b):
        ctx.violation("standardize-changes-reaction", wit, "standardised reaction has different molecules")
    for kind, v in variants:
        fv = s.fit(v)
        if fv != f:
            ctx.violation("standardize-not-invariant", {**wit, "variant": v, "variant_kind": kind, "variant_fit": fv},
                          f"Standardize.fit differs for a {kind} variant")
            break


def check_validator(ctx, r, variants):
    from synkit.Chem.Reaction.aam_validator import AAMValidator

    rng = ctx.rng
    g = ref_validator_its(r)
    if g is None:
        return
    grc = ref_rc(g)
    for kind, v in variants:
        for method in ("ITS", "RC"):
            got = AAMValidator.smiles_check(v, r, check_method=method)
            ctx.count("validator_renumberings")
            gv = ref_validator_its(v)
            exp = iso(gv, g) if method == "ITS" else iso(ref_rc(gv), grc)
            if got != exp or not exp:
                ctx.violation("validator-renumbering", {"rsmi": r, "variant": v, "variant_kind": kind, "method": method},
                              f"smiles_check({method}) = {got} for a {kind} variant of the same mapping (reference says {exp})")
    # adversarial transpositions of two same-element centre atoms on the product side
    centre = sorted(grc.nodes)
    pairs = [(i, j) for x, i in enumerate(centre) for j in centre[x + 1:] if g.nodes[i]["lab"][0][0] == g.nodes[j]["lab"][0][0]]
    # plus pairs (centre atom, non-centre atom) of the same element
    others = [n for n in g.nodes if n not in grc]
    rng.shuffle(others)
    for i in centre[:4]:
        for j in others[:40]:
            if g.nodes[i]["lab"][0][0] == g.nodes[j]["lab"][0][0]:
                pairs.append((i, j))
                break
    rng.shuffle(pairs)
    for i, j in pairs[: (3 if ctx.quick else 10)]:
        t = transpose_product_maps(r, i, j)
        gt = ref_validator_its(t)
        if gt is None:
            continue
        for method in ("ITS", "RC"):
            exp = iso(gt, g) if method == "ITS" else iso(ref_rc(gt), grc)
            got = AAMValidator.smiles_check(t, r, check_method=method)
            # the record-level entry points must give the same verdict
            rec = {"m": t, "g": r}
            got_pair = AAMValidator.check_pair(rec, "m", "g", method, False, True)
            got_batch = AAMValidator.validate_smiles([rec], "g", ["m"], method, False, 1, 0, True)[0]["results"][0]
            ctx.count("validator_record_entry_points")
            if got_pair != exp or got_batch != exp:
                ctx.violation("validator-entry-points", {"rsmi": r, "transposed": t, "swap": [i, j], "method": method},
                              f"check_pair={got_pair}, validate_smiles={got_batch} for check_method={method}; reference isomorphism says {exp}")
            ctx.count("validator_transpositions")
            ctx.count("validator_rejections_expected" if not exp else "validator_acceptances_of_transpositions")
            if got != exp:
                ctx.violation("validator-transposition", {"rsmi": r, "transposed": t, "swap": [i, j], "method": method},
                              f"smiles_check({method}) = {got} for a mapping with product maps {i}<->{j} swapped; reference isomorphism says {exp}")


def unbalanced_variants(ctx, r):
    rng = ctx.rng
    a, b = r.split(">>")
    fa, fb = a.split("."), b.split(".")
    out = []
    if len(fb) > 1:
        out.append(a + ">>" + ".".join(fb[:-1]))
    out.append(a + "." + rng.choice(fa) + ">>" + b)
    out.append(a + ".[H+]>>" + b)
    out.append(a + ">>" + b + ".[H][H]")
    out.append(a + ".[H][H]>>" + b + ".[H][H]")
    out.append(a + ".[H+].[OH-]>>" + b + ".O")
    out.append(a + ".[H][H]>>" + b + ".[H+].[H-]")
    out.append(a + ".O>>" + b + ".[OH2]")
    # charge change with the same atoms
    if "[O-]" in b:
        out.append(a + ">>" + b.replace("[O-]", "[OH]", 1))
    return out


def check_balance(ctx, r):
    from synkit.Chem.Reaction.balance_check import BalanceReactionCheck

    for v in [r, corpus.reverse(r)] + unbalanced_variants(ctx, r):
        va, vb = v.split(">>")
        ca, cb = R.counts(va), R.counts(vb)
        if ca is None or cb is None:
            ctx.count("balance_variants_unparsable")
            continue
        exp = ca == cb
        got = BalanceReactionCheck.rsmi_balance_check(v)
        ctx.count("balance_true" if exp else "balance_false")
        if "[H][H]" in v or "[H+]" in v:
            ctx.count("h_species_balance_cases")
        if got != exp:
            ctx.violation("balance", {"rsmi": v}, f"rsmi_balance_check = {got}; independent counts: reactants {dict(ca)} products {dict(cb)}")


# reactions in less common but legal SMILES notation (dative bonds, isotopes, two-digit ring closures, multiply charged ions)
NOTATION_RXNS = [
    "N.N.[Cu+2]>>[NH3]->[Cu+2]<-[NH3]", "N.[Cu+2]>>[NH3]->[Cu+2]<-[NH3]", "N.B>>[NH3]->[BH3]", "N.N.B>>[NH3]->[BH3]",
    "O.[Fe+3]>>[OH2]->[Fe+3]", "CC#N.[Pd+2]>>CC#[N]->[Pd+2]", "CC#N.CC#N.[Pd+2]>>CC#[N]->[Pd+2]", "C1CCOC1.B>>[BH3]<-O1CCCC1",
    "[2H]O[2H].CCl>>CO[2H].[2H]Cl", "[13CH4].ClCl>>[13CH3]Cl.Cl", "[O-2].[Mg+2]>>[Mg]=O", "[O-2].[Mg+2]>>O=[Mg].O",
    "C%10CCCCC%10.BrBr>>BrC%11CCCCC%11.Br", "C%10CCCCC%10.BrBr>>BrC%11CCCCC%11", "[NH4+].[OH-]>>N.O", "[NH4+].[OH-]>>N.[OH-]",
    "c1ccccc1.O=[N+]([O-])O>>c1ccccc1[N+](=O)[O-].O", "[Cl-].[Cl-].[Pt+2].N.N>>[NH3]->[Pt](Cl)(Cl)<-[NH3]",
]


def check_notation(ctx):
    from rdkit import Chem
    from synkit.Chem.Reaction.balance_check import BalanceReactionCheck

    rng = ctx.rng
    for i, r in enumerate(NOTATION_RXNS):
        if not ctx.mine(i):
            continue
        a, b = r.split(">>")
        spell = [(a, b)]
        ma, mb = Chem.MolFromSmiles(a), Chem.MolFromSmiles(b)
        if ma is not None and mb is not None:
            k = 4 if ctx.quick else 20
            sa = Chem.MolToRandomSmilesVect(ma, k, randomSeed=rng.randrange(1, 10**6))
            sb = Chem.MolToRandomSmilesVect(mb, k, randomSeed=rng.randrange(1, 10**6))
            spell += list(zip(sa, sb))
        for va, vb in spell:
            ca, cb = R.counts(va), R.counts(vb)
            if ca is None or cb is None:
                ctx.count("balance_variants_unparsable")
                continue
            for x, y, cx, cy in ((va, vb, ca, cb), (vb, va, cb, ca)):
                v = x + ">>" + y
                exp = cx == cy
                try:
                    got = BalanceReactionCheck.rsmi_balance_check(v)
                except Exception as e:
                    got = f"{type(e).__name__}: {e}"
                ctx.count("notation_balance_checked")
                if "->" in v:
                    ctx.count("notation_dative_right_arrow")
                if "<-" in v:
                    ctx.count("notation_dative_left_arrow")
                if got != exp:
                    ctx.violation("balance", {"rsmi": v}, f"rsmi_balance_check = {got}; independent counts: reactants {dict(cx)} products {dict(cy)}")
            ctx.case(("notation", va, vb), nontrivial=True, sample={"space": "notation reactions", "rsmi": va + ">>" + vb} if rng.random() < 0.05 else None)


def big_symmetric_reactions():
    """mapped reactions with > 48 atoms in which two copies of the same small reagent react with a symmetric substrate
    (hydrogenation of diphenylacetylene next to two PPh3 spectators ...): transposing atoms between the two copies leaves
    every local environment unchanged."""
    def ph(a):
        return "[c:%d]1[cH:%d][cH:%d][cH:%d][cH:%d][cH:%d]1" % tuple(range(a, a + 6))

    def pph3(a):
        return "[P:%d](%s)(%s)%s" % (a, ph(a + 1), ph(a + 7), ph(a + 13))

    spect = pph3(19) + "." + pph3(38)
    out = []
    react = "[H:1][H:2].[H:3][H:4].[C:5](#[C:6]%s)%s.%s" % (ph(13), ph(7), spect)
    prod = "[H:1][C:5]([H:3])(%s)[C:6]([H:2])([H:4])%s.%s" % (ph(7), ph(13), spect)
    out.append((react + ">>" + prod, [(2, 3), (1, 4), (1, 2)]))
    react = "[Br:1][Br:2].[Br:3][Br:4].[C:5](#[C:6]%s)%s.%s" % (ph(13), ph(7), spect)
    prod = "[Br:1][C:5]([Br:3])(%s)[C:6]([Br:2])([Br:4])%s.%s" % (ph(7), ph(13), spect)
    out.append((react + ">>" + prod, [(2, 3), (1, 4)]))
    return out


def check_big_symmetric(ctx):
    from synkit.Chem.Reaction.aam_validator import AAMValidator
    for k, (r, swaps) in enumerate(big_symmetric_reactions()):
        if not ctx.mine(k):
            continue
        g = ref_validator_its(r)
        if g is None:
            ctx.count("big_symmetric_unreadable")
            continue
        for i, j in swaps:
            t = transpose_product_maps(r, i, j)
            gt = ref_validator_its(t)
            if gt is None:
                continue
            for method in ("ITS", "RC"):
                exp = iso(gt, g) if method == "ITS" else iso(ref_rc(gt), ref_rc(g))
                got = AAMValidator.smiles_check(t, r, check_method=method)
                ctx.count("big_symmetric_transpositions_checked")
                if not exp:
                    ctx.count("big_symmetric_rejections_expected")
                if got != exp:
                    ctx.violation("validator-transposition", {"rsmi": r[:300], "swap": [i, j], "method": method, "atoms": g.number_of_nodes()},
                                  f"smiles_check({method}) = {got} for a {g.number_of_nodes()}-atom reaction with product maps {i}<->{j} swapped; reference isomorphism says {exp}")
        ctx.case(("bigsym", k), nontrivial=True, sample={"space": "large symmetric reactions", "atoms": g.number_of_nodes(), "swaps": swaps})


def run(ctx):
    rng = ctx.rng
    check_notation(ctx)
    check_big_symmetric(ctx)
    # reactions with look-alike atoms (same element/charge/H/degree, different bond orders around them)
    for t in range(30 if ctx.quick else 300):
        if ctx.out_of_time(0.3):
            break
        r = corpus.lookalike_reaction(rng)
        if not corpus.wellformed(r):
            ctx.count("lookalike_malformed")
            continue
        variants = corpus.variants(r, rng, k=3 if ctx.quick else 6)
        ctx.count("lookalike_reactions")
        if distinguishable(r, "nauty"):
            ctx.count("lookalike_reactions_distinguishable")
        check_canon(ctx, r, variants)
        ctx.case(("rx", r), nontrivial=True, sample={"space": "look-alike spectators", "rsmi": r} if rng.random() < 0.05 else None)
    wf = corpus.wellformed_reactions()
    step = 2 if ctx.quick else 1
    for i, (rid, r) in enumerate(wf):
        if not ctx.mine(i):
            continue
        if (i // ctx.nshards) % step != ctx.seed % step:
            continue
        if ctx.out_of_time():
            ctx.count("truncated_by_budget")
            break
        variants = corpus.variants(r, rng, k=2 if ctx.quick else 6)
        if not ctx.quick:
            for _ in range(3):
                w = corpus.rewrite(r, rng)
                if w:
                    variants.append(("rewrite+renumber", corpus.renumber(w, rng)))
        check_canon(ctx, r, variants)
        check_standardize(ctx, r, variants)
        check_validator(ctx, r, [v for v in variants if v[0].startswith("renumber") or v[0].startswith("rewrite")][:3])
        check_balance(ctx, r)
        ref = R.reference_its(r)
        n_changed = sum(1 for _, _, d in ref.edges(data=True) if d["o"][0] != d["o"][1]) if ref is not None else 0
        ctx.case(("rx", r), nontrivial=n_changed >= 1 and ref.number_of_nodes() >= 6,
                 sample={"space": "corpus reactions x variants", "rsmi": r, "variants": [k for k, _ in variants]}
                 if (ctx.evaluations < 2 or rng.random() < 0.02) else None)


def replay(ctx, v):
    w = v["witness"]
    r = w["rsmi"]
    variants = corpus.variants(r, ctx.rng, k=3)
    if "variant" in w:
        variants.append((w.get("variant_kind", "renumber"), w["variant"]))
    k = v["kind"]
    if k.startswith("canon"):
        check_canon(ctx, r, variants)
    elif k.startswith("standardize"):
        check_standardize(ctx, r, variants)
    elif k.startswith("validator"):
        check_validator(ctx, r, [x for x in variants if x[0].startswith("renumber")])
        if "transposed" in w:
            from synkit.Chem.Reaction.aam_validator import AAMValidator
            print("smiles_check on the recorded transposition:", AAMValidator.smiles_check(w["transposed"], r, check_method=w.get("method", "ITS")))
    else:
        check_balance(ctx, r)
