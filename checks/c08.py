"""C08 — graph canonicalisation is faithful and sound; the exact back-end is invariant.

Monitors (all four back-ends): faithfulness of the canonical graph (bijection onto 1..N, every node /
edge attribute preserved — decided by an independent full-attribute isomorphism search), determinism
of the signature (repeat calls in-process; fixed probe graphs across shards with different hash seeds),
soundness (graphs grouped by signature must be pairwise isomorphic on the covered attributes).
Exact back-end (nauty): every relabelling / insertion order / edge orientation of a graph must give the
identical canonical graph and signature; CanonicalGraph / SynGraph / SynRule equality and hash."""
from __future__ import annotations

import itertools

import networkx as nx

from oracles import brute as B
from workloads import graphs as WG

RULE = (
    "one case = one labelled graph canonicalised by every back-end, for nauty under all node permutations "
    "(<=120) and shuffled insertion orders; distinct = distinct isomorphism class / random graph; non-trivial = "
    ">=3 nodes and >=2 edges"
)
REQUIRED = ["faithful_checked/generic", "faithful_checked/wl", "faithful_checked/morgan", "faithful_checked/nauty",
            "nauty_permutations_checked", "signature_repeat_checked", "soundness_groups_checked",
            "soundness_pairs_isomorphism_checked", "symmetric_graphs_checked", "value_objects_checked",
            "synrule_checked", "synrule_from_gml_checked", "tuple_order_graphs_checked", "nauty_distinct_classes_separated",
            "presentations_with_other_numeric_types", "synrule_same_sides_other_mapping_checked", "two_order_complete_graphs_checked", "cross_process_probes",
            "synrule_without_canon_checked", "fresh_vs_startup_canonicaliser_checked"]
ASSUMPTIONS = [
    "covered attributes: element, charge, aromatic, hcount on nodes; order, standard_order on edges (the default keys)",
    "standard_order is a function of order in every generated graph (as in ITS graphs); independent variation is outside the data model",
    "invariance is demanded of the nauty back-end only; generic / wl / morgan are checked for faithfulness, determinism and soundness",
]
SHARDS = {"quick": 8, "thorough": 16}
BUDGET_S = {"quick": 70, "thorough": 700}
BACKENDS = ["generic", "wl", "morgan", "nauty"]
NKEYS = ("element", "charge", "aromatic", "hcount")
EKEYS = ("order", "standard_order")


def full_eq(a, b):
    return a == b


def cov_node(a, b):
    return all(a.get(k, d) == b.get(k, d) for k, d in zip(NKEYS, ("", 0, False, 0)))


def cov_edge(a, b):
    return all(a.get(k, 0) == b.get(k, 0) for k in EKEYS)


def covered(G):
    nodes = {n: tuple(d.get(k, dv) for k, dv in zip(NKEYS, ("", 0, False, 0))) for n, d in G.nodes(data=True)}
    edges = {tuple(sorted((u, v))): tuple(d.get(k, 0) for k in EKEYS) for u, v, d in G.edges(data=True)}
    return nodes, edges


_canon = {}
KF_GENERIC = "generic-backend-ties-follow-insertion-order"


def canon(backend):
    from synkit.Graph.canon_graph import GraphCanonicaliser
    if backend not in _canon:
        _canon[backend] = GraphCanonicaliser(backend=backend)
    return _canon[backend]


def check_faithful(ctx, G, backend, wit):
    c = canon(backend)
    cg = c.make_canonical_graph(G)
    ctx.count("faithful_checked/" + backend)
    N = G.number_of_nodes()
    if sorted(cg.nodes) != list(range(1, N + 1)):
        ctx.violation("not-1..N", {**wit, "backend": backend}, f"{backend}: canonical node set {sorted(cg.nodes)} is not 1..{N}")
        return None
    if cg.number_of_edges() != G.number_of_edges() or not B.is_isomorphic(G, cg, full_eq, full_eq):
        ctx.violation("not-faithful", {**wit, "backend": backend}, f"{backend}: canonical graph is not the input relabelled with all attributes preserved")
        return None
    return cg


def check_graph(ctx, G, tag, key, groups, perms=None, light=False):
    rng = ctx.rng
    wit = {"graph": WG.describe(G)}
    g0 = WG.gdigest(G)
    N = G.number_of_nodes()
    for backend in BACKENDS:
        cg = check_faithful(ctx, G, backend, wit)
        c = canon(backend)
        s1 = c.canonical_signature(G)
        if not light:
            s2, s3 = c.canonical_signature(G), c.canonical_signature(G.copy())
            ctx.count("signature_repeat_checked")
            if not (s1 == s2 == s3):
                ctx.violation("signature-not-deterministic", {**wit, "backend": backend}, f"{backend}: repeated signature calls differ {s1} {s2} {s3}")
        if not light:
            # an identically configured canonicaliser built *now* (after all back-ends have been used in this process)
            # answers like the one built at start-up
            from synkit.Graph.canon_graph import GraphCanonicaliser
            s5 = GraphCanonicaliser(backend=backend).canonical_signature(G)
            ctx.count("fresh_vs_startup_canonicaliser_checked")
            if s5 != s1:
                ctx.violation("signature-not-deterministic", {**wit, "backend": backend, "history": "canonicaliser built after other back-ends were used"},
                              f"{backend}: a canonicaliser constructed later in the process gives another signature than the identically configured one built at start-up")
            # the same labelled graph (same node ids) built in another insertion / edge order is the same graph
            Gs, _ = WG.scramble(G, rng, ids=list(G.nodes))
            ctx.count("same_ids_other_insertion_order_checked")
            s4 = c.canonical_signature(Gs)
            if s4 != s1:
                # recorded finding: the attribute-sort back-end orders nodes with equal sort keys by insertion order
                keys = [tuple(G.nodes[n].get(k) for k in NKEYS) for n in G.nodes]
                fnd = KF_GENERIC if backend == "generic" and len(set(keys)) < len(keys) else None
                ctx.violation("signature-not-deterministic", {**wit, "backend": backend, "presentation": WG.describe(Gs)},
                              f"{backend}: the same graph (identical node ids, attributes and bonds) inserted in another order gets a different signature",
                              finding=fnd)
        # soundness bookkeeping: first graph seen per (backend, signature)
        rep = groups.setdefault((backend, s1), G)
        if rep is not G:
            ctx.count("soundness_pairs_isomorphism_checked")
            if not B.is_isomorphic(G, rep, cov_node, cov_edge):
                ctx.violation("signature-collision", {**wit, "backend": backend, "other": WG.describe(rep)},
                              f"{backend}: equal signatures for graphs that are not isomorphic on the covered attributes")
    if WG.gdigest(G) != g0:
        ctx.violation("input-mutated", wit, "canonicalisation modified its input")
    # ---------- exact back-end: invariance under every presentation ---------- #
    c = canon("nauty")
    ref_graph = covered(c.make_canonical_graph(G))
    ref_sig = c.canonical_signature(G)
    nodes = sorted(G.nodes)
    if perms is None:
        perms = [rng.sample(nodes, len(nodes)) for _ in range(3)]
    from synkit.Graph.Canon.nauty import NautyCanonicalizer
    nc = NautyCanonicalizer(node_attrs=list(NKEYS), edge_attrs=["order"])
    ref_ns = nc.graph_signature(G)
    for pm in perms:
        H = WG.permuted(G, list(pm))
        if rng.random() < 0.5:
            H, _ = WG.scramble(H, rng, ids=list(H.nodes))  # same ids, shuffled insertion / orientation
        if rng.random() < 0.35:
            # equal labels written with another numeric type (GML-read graphs carry int orders, RDKit-derived ones floats)
            for _, _, d_ in H.edges(data=True):
                o_ = d_.get("order")
                if isinstance(o_, (int, float)) and not isinstance(o_, bool) and float(o_).is_integer():
                    d_["order"] = int(o_) if isinstance(o_, float) else float(o_)
            for _, d_ in H.nodes(data=True):
                if isinstance(d_.get("charge"), int) and rng.random() < 0.5:
                    d_["charge"] = float(d_["charge"])
            ctx.count("presentations_with_other_numeric_types")
        ctx.count("nauty_permutations_checked")
        got = covered(c.make_canonical_graph(H))
        if got != ref_graph:
            ctx.violation("nauty-graph-not-invariant", {**wit, "presentation": WG.describe(H)},
                          "nauty: a relabelled copy receives a different canonical graph")
            break
        if c.canonical_signature(H) != ref_sig:
            ctx.violation("nauty-signature-not-invariant", {**wit, "presentation": WG.describe(H)},
                          "nauty: a relabelled copy receives a different signature (identical canonical graph)")
            break
        if nc.graph_signature(H) != ref_ns:
            ctx.violation("nauty-graph_signature-not-invariant", {**wit, "presentation": WG.describe(H)},
                          "NautyCanonicalizer.graph_signature differs for a relabelled copy")
            break
    # ---------- value objects ---------- #
    if not light:
        from synkit.Graph.canon_graph import CanonicalGraph
        from synkit.Graph.syn_graph import SynGraph
        H, _ = WG.scramble(G, rng)
        a, b = CanonicalGraph(G, c), CanonicalGraph(H, c)
        sa, sb = SynGraph(G, c), SynGraph(H, c)
        ctx.count("value_objects_checked")
        if not (a == b and hash(a) == hash(b) and len({a, b}) == 1):
            ctx.violation("value-object", {**wit, "presentation": WG.describe(H)}, "CanonicalGraph(nauty): isomorphic graphs compare unequal / hash differently")
        if not (sa == sb and hash(sa) == hash(sb)):
            ctx.violation("value-object", {**wit, "presentation": WG.describe(H)}, "SynGraph(nauty): isomorphic graphs compare unequal / hash differently")
        if a.canonical_hash != c.canonical_signature(G):
            ctx.violation("value-object", wit, "CanonicalGraph.canonical_hash differs from canonical_signature of the same graph")
    ctx.case(key, nontrivial=N >= 3 and G.number_of_edges() >= 2,
             sample={"space": tag, **wit, "nauty_signature": ref_sig, "presentations": len(perms)}
             if (ctx.evaluations < 2 or rng.random() < 0.001) else None)
    return ref_sig


def tuple_order_graph(rng, n):
    """ITS-like graph: order is a (before, after) tuple and standard_order its difference."""
    G = WG.random_mol(rng, n, p_charge=0.1)
    for u, v, d in G.edges(data=True):
        a = d["order"]
        b = rng.choice([a, a, 0, 1, 2])
        d["order"] = (float(a), float(b))
        d["standard_order"] = float(a) - float(b)
    return G


def near_miss(rng, G):
    H = G.copy()
    v = rng.choice(list(H.nodes))
    k = rng.random()
    if k < 0.3:
        H.nodes[v]["charge"] = H.nodes[v].get("charge", 0) + 1
    elif k < 0.55:
        H.nodes[v]["hcount"] = H.nodes[v].get("hcount", 0) + 1
    elif k < 0.75:
        H.nodes[v]["aromatic"] = not H.nodes[v].get("aromatic", False)
    elif H.number_of_edges():
        u, w = rng.choice(list(H.edges))
        o = H[u][w]["order"]
        step = rng.choice([1, 0.5, -0.5])
        H[u][w]["order"] = (o[0], o[1] + 1.0) if isinstance(o, tuple) else max(0.5, o + step)
        if isinstance(o, tuple):
            H[u][w]["standard_order"] = H[u][w]["order"][0] - H[u][w]["order"][1]
    return H


def check_synrule(ctx):
    from synkit.Rule.syn_rule import SynRule
    from workloads import corpus

    rng = ctx.rng
    c = canon("nauty")
    data = corpus.pickled()
    picks = [d for i, d in enumerate(data) if ctx.mine(i)]
    if ctx.quick:
        picks = picks[:8]
    seen = {}
    for d in picks:
        rc = d["RC"]
        try:
            r1 = SynRule(rc, canonicaliser=c)
        except Exception:
            ctx.count("synrule_construction_failed")
            continue
        H, _ = WG.scramble(rc, rng)
        r2 = SynRule(H, canonicaliser=c)
        ctx.count("synrule_checked")
        if not (r1 == r2 and hash(r1) == hash(r2)):
            ctx.violation("synrule", {"rid": d.get("R-id")}, "SynRule(nauty): a relabelled copy of the rule compares unequal")
        # secondary constructor: rules read back from GML text must behave the same with the exact back-end
        try:
            from synkit.IO.chem_converter import its_to_gml
            g1 = its_to_gml(rc, core=False, reindex=False)
            f1 = SynRule.from_gml(g1, canonicaliser=c)
            for _ in range(4):
                H2, _m = WG.scramble(rc, rng)
                f2 = SynRule.from_gml(its_to_gml(H2, core=False, reindex=rng.random() < 0.5), canonicaliser=c)
                ctx.count("synrule_from_gml_checked")
                if not (f1 == f2 and hash(f1) == hash(f2)):
                    ctx.violation("synrule", {"rid": d.get("R-id"), "via": "from_gml"}, "SynRule.from_gml(nauty): a relabelled copy of the rule compares unequal")
                    break
        except Exception:
            ctx.count("synrule_from_gml_failed")
        k = r1.canonical_smiles
        if k in seen:
            o = seen[k]
            ok = B.is_isomorphic(r1.left.raw, o.left.raw, cov_node, cov_edge) and B.is_isomorphic(r1.right.raw, o.right.raw, cov_node, cov_edge)
            if not ok:
                ctx.violation("synrule", {"rid": d.get("R-id")}, "equal SynRules whose fragments are not isomorphic")
        seen[k] = r1
    # rules built with canon=False carry no signature: two different rules must not compare equal for lack of one
    if ctx.shard == 0:
        from synkit.IO.chem_converter import rsmi_to_its
        ra_ = SynRule(rsmi_to_its("[CH3:1][Cl:2].[OH-:3]>>[CH3:1][OH:3].[Cl-:2]"), canon=False)
        rb_ = SynRule(rsmi_to_its("[CH2:1]=[CH2:2].[BrH:3]>>[CH3:1][CH2:2][Br:3]"), canon=False)
        ctx.count("synrule_without_canon_checked")
        if ra_ == rb_ or len({ra_, rb_}) != 2:
            ctx.violation("synrule", {"canon": False}, "SynRule(canon=False): two different rules compare equal / collapse in a set")
        if not (ra_ == ra_):
            ctx.violation("synrule", {"canon": False}, "SynRule(canon=False): a rule does not equal itself")
    # same sides, different atom correspondence: not the same rule
    if ctx.shard == 0:
        from synkit.IO.chem_converter import rsmi_to_its
        pairs = [("[CH3:1][C:2](=[O:3])[O:4][CH3:5].[OH2:6]>>[CH3:1][C:2](=[O:3])[OH:6].[CH3:5][OH:4]",
                  "[CH3:1][C:2](=[O:3])[O:4][CH3:5].[OH2:6]>>[CH3:1][C:2](=[O:3])[OH:4].[CH3:5][OH:6]"),
                 ("[CH3:1][CH2:2][Br:3].[Br-:4]>>[CH3:1][CH2:2][Br:4].[Br-:3]",
                  "[CH3:1][CH2:2][Br:3].[Br-:4]>>[CH3:1][CH2:2][Br:3].[Br-:4]")]
        for ra, rb in pairs:
            for core in (False, True):
                try:
                    ia, ib = rsmi_to_its(ra, core=core), rsmi_to_its(rb, core=core)
                    if ia.number_of_nodes() == 0 or ib.number_of_nodes() == 0:
                        continue
                    A_, B_ = SynRule(ia, canonicaliser=c), SynRule(ib, canonicaliser=c)
                except Exception:
                    ctx.count("synrule_construction_failed")
                    continue
                ctx.count("synrule_same_sides_other_mapping_checked")
                same_rc = B.is_isomorphic(A_.rc.raw, B_.rc.raw, cov_node, cov_edge)
                if (A_ == B_) and not same_rc:
                    ctx.violation("synrule", {"a": ra, "b": rb, "core": core},
                                  "SynRule(nauty): two rules with the same sides but a different atom correspondence (non-isomorphic reaction centres) compare equal")


def two_order_complete_family(quick):
    """complete graphs whose bonds take two orders (order 1 on the edges of a small regular graph F, order 2 elsewhere)
    with 0-3 hetero atoms: colour refinement cannot split the carbon cell, so the individualisation search and its
    automorphism pruning do all the work."""
    rel = lambda g: nx.relabel_nodes(g, {v: i + 1 for i, v in enumerate(g.nodes)})
    fams = {"C6": rel(nx.cycle_graph(6)), "P6": rel(nx.path_graph(6)), "prism": rel(nx.circular_ladder_graph(3)),
            "K33": rel(nx.complete_bipartite_graph(3, 3)), "2C3": rel(nx.disjoint_union(nx.cycle_graph(3), nx.cycle_graph(3))),
            "3K2": rel(nx.disjoint_union_all([nx.path_graph(2)] * 3)), "C7": rel(nx.cycle_graph(7))}
    if not quick:
        fams.update({"C8": rel(nx.cycle_graph(8)), "cube": rel(nx.hypercube_graph(3)),
                     "2C4": rel(nx.disjoint_union(nx.cycle_graph(4), nx.cycle_graph(4)))})
    out = {}
    for name, F in fams.items():
        n = F.number_of_nodes()
        hets = [(1,), (1, 2), (1, 3), (1, 4), (1, 2, 3), (1, 2, 4)] + ([()] if n <= 6 else [])
        for het in hets:
            G = nx.Graph()
            for v in range(1, n + 1):
                G.add_node(v, element="N" if v in het else "C", hcount=0, charge=0, aromatic=False, atom_map=v, neighbors=[])
            for u, v in itertools.combinations(range(1, n + 1), 2):
                G.add_edge(u, v, order=1.0 if F.has_edge(u, v) else 2.0, standard_order=0.0)
            out[f"K{n}[{name}]/N@{','.join(map(str, het)) or '-'}"] = G
    return out


def run(ctx):
    rng = ctx.rng
    groups = {}
    for b_ in BACKENDS:
        canon(b_)          # all long-lived canonicalisers exist before the first canonicalisation of this process
    for t, (name, G) in enumerate(two_order_complete_family(ctx.quick).items()):
        if ctx.mine(t) and not ctx.out_of_time(0.5):
            nodes = sorted(G.nodes)
            perms = [rng.sample(nodes, len(nodes)) for _ in range(40 if len(nodes) <= 6 else 12 if ctx.quick else 24)]
            check_graph(ctx, G, "two-order complete graphs " + name, ("k2", name), groups, perms=perms, light=True)
            ctx.count("two_order_complete_graphs_checked")
    # fixed probes computed by every shard (different hash seeds) -> must agree
    probes = [WG.to_nx(r) for r in WG.classes(3)[:30]] + list(WG.symmetric_families().values())[:6]
    # molecules whose atoms order differently depending on which attribute is compared first (CH3 vs O-, NH3+ vs C)
    from synkit.IO.chem_converter import smiles_to_graph
    for smi in ("CC(=O)[O-]", "C[NH3+]", "[O-]C(=O)CC[NH3+]", "Oc1ccccc1", "C[N+](C)(C)CC([O-])=O", "[Na+].[O-]CC"):
        probes.append(smiles_to_graph(smi, drop_non_aam=False, use_index_as_atom_map=True))
    from synkit.Graph.syn_graph import SynGraph
    for i, G in enumerate(probes):
        for b in BACKENDS:
            ctx.xshard[f"sig/{b}/{i}"] = canon(b).canonical_signature(G)
            try:
                cg = canon(b).canonicalise_graph(G).canonical_graph
                ctx.xshard[f"canon-graph/{b}/{i}"] = repr((sorted((n, sorted((k, repr(v)) for k, v in d.items() if k != "neighbors")) for n, d in cg.nodes(data=True)),
                                                           sorted((min(u, v), max(u, v), sorted((k, repr(x)) for k, x in d.items())) for u, v, d in cg.edges(data=True))))
            except Exception as e:
                ctx.xshard[f"canon-graph/{b}/{i}"] = type(e).__name__
        ctx.xshard[f"syngraph-sig/{i}"] = SynGraph(G, canon("nauty")).signature
    ctx.count("cross_process_probes", len(probes))
    # symmetric families (shard 0..)
    for t, (name, G) in enumerate(WG.symmetric_families().items()):
        if ctx.mine(t):
            if name == "petersen" and ctx.quick:
                continue
            nodes = sorted(G.nodes)
            perms = [rng.sample(nodes, len(nodes)) for _ in range(4 if ctx.quick else 12)]
            check_graph(ctx, G, "symmetric family " + name, ("fam", name), groups, perms=perms)
            ctx.count("symmetric_graphs_checked")
    # exhaustive classes under all permutations
    spaces = []
    if ctx.quick:
        spaces.append(("classes <=3 nodes, full alphabet, all permutations", [r for n in (1, 2, 3) for r in WG.classes(n)]))
        spaces.append(("classes of 4 nodes, reduced alphabet (2 elements x orders{1,2}), all 24 permutations", WG.classes(4, WG.RED_NODE, [1, 2])))
    else:
        spaces.append(("classes <=4 nodes, full alphabet, all permutations", [r for n in (1, 2, 3, 4) for r in WG.classes(n)]))
        spaces.append(("classes of 5 nodes, reduced alphabet (<=5 bonds), all 120 permutations", WG.classes(5, WG.RED_NODE, [1, 2], 5)))
    idx = 0
    sigs_by_space = {}
    for tag, reps in spaces:
        for i, r in enumerate(reps):
            idx += 1
            if not ctx.mine(idx):
                continue
            G = WG.to_nx(r)
            n = G.number_of_nodes()
            perms = list(itertools.permutations(range(1, n + 1)))[1:]
            sig = check_graph(ctx, G, tag, ("cls", tag, i), groups, perms=perms, light=(idx % 3 != 0))
            sigs_by_space.setdefault(tag, []).append(sig)
        ctx.exhaustive[tag] = True
    for tag, sigs in sigs_by_space.items():
        ctx.count("nauty_distinct_classes_separated", len(set(sigs)))
        if len(set(sigs)) != len(sigs):
            ctx.violation("nauty-merges-classes", {"space": tag}, "two different isomorphism classes received the same nauty signature")
    # random graphs, charged / aromatic flags / tuple orders
    n = 150 if ctx.quick else 3000
    for t in range(n):
        if ctx.out_of_time(0.85):
            ctx.count("random_truncated_by_budget")
            break
        if t % 3 == 0:
            G = tuple_order_graph(rng, rng.randint(3, 8))
            ctx.count("tuple_order_graphs_checked")
        else:
            G = WG.random_mol(rng, rng.randint(3, 9), components=rng.choice([1, 1, 2]), p_charge=0.15,
                              elements=rng.choice([("C",), ("C", "C", "N"), ("C", "N", "O")]),
                              orders=rng.choice([(1, 1, 1, 2), (1, 1.5, 1.5, 2), (1, 2, 2.5, 3)]))
            for v in G.nodes:
                G.nodes[v]["aromatic"] = rng.random() < 0.2
        G, _ = WG.scramble(G, rng)
        nodes = sorted(G.nodes)
        perms = [rng.sample(nodes, len(nodes)) for _ in range(4)]
        check_graph(ctx, G, "random graphs", ("rnd", WG.describe(G)), groups, perms=perms, light=(t % 2 == 0))
        # soundness pressure: a relabelled copy and a one-edit neighbour enter the signature groups
        for H in (WG.scramble(G, rng)[0], near_miss(rng, G)):
            for backend in BACKENDS:
                s = canon(backend).canonical_signature(H)
                rep = groups.setdefault((backend, s), H)
                if rep is not H:
                    ctx.count("soundness_pairs_isomorphism_checked")
                    if not B.is_isomorphic(H, rep, cov_node, cov_edge):
                        ctx.violation("signature-collision", {"graph": WG.describe(H), "backend": backend, "other": WG.describe(rep)},
                                      f"{backend}: equal signatures for graphs that are not isomorphic on the covered attributes")
    ctx.count("soundness_groups_checked", len(groups))
    check_synrule(ctx)


def replay(ctx, v):
    w = v["witness"]
    if "graph" not in w:
        print("witness without a graph (cross-shard / SynRule):", w)
        ctx.violation(v["kind"], w, "re-run the check to reproduce (not a single-graph witness)")
        return
    G = WG.from_desc(w["graph"])
    perms = None
    if "presentation" in w:
        perms = [[n for n, *_ in w["presentation"]["nodes"]]]
    check_graph(ctx, G, "replay", ("replay",), {}, perms=None)
