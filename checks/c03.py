"""C03 — every reaction proposed by rule application is a genuine instance of the rule.

Monitors: class-level wrappers on SynReactor.its_list and SynReactor.smarts_list (they fire for every
SynReactor created anywhere in the process).  For each glued ITS: (a) its reactant projection, hydrogens
folded back into counts, equals the substrate graph node for node; (c) its change graph is isomorphic to the
template's (inverted when applied backwards) and no other bond is altered.  For each rendered reaction, read
with an RDKit-only reader: (a) the substrate side is the substrate, (b) element counts incl. hydrogens and
total charge are conserved (balanced templates only)."""
from __future__ import annotations

import networkx as nx

from oracles import rdkit_rxn as R
from checks import reactor_common as RC

RULE = (
    "one case = one reactor execution (template, substrate, direction, strategy, hydrogen mode) whose every glued ITS and "
    "rendered reaction is checked; distinct = distinct execution; non-trivial = >=1 result produced"
)
REQUIRED = ["its_monitor_evals", "smarts_monitor_evals", "its_results_checked", "smarts_results_checked",
            "substrate_identity_checked", "change_graph_checked", "balance_checked", "runs/fwd", "runs/bwd",
            "runs/own-template", "runs/foreign-template", "runs/explicit", "runs/implicit", "strategy/all",
            "strategy/comp", "strategy/bt", "results_with_ring_closing_on_existing_bond", "results_with_multi_h_transfer", "graph_substrate_runs"]
ASSUMPTIONS = [
    "preconditions decided from the inputs: template without wildcard atoms, partial=False, hydrogen mode consistent with the flags",
    "conservation (b) is claimed for balanced templates only (sum of hydrogen and charge changes over the template is zero)",
    "comparison on the ITS level: after SMILES rendering RDKit re-perceives aromaticity, which is not a change of the rule",
]
SHARDS = {"quick": 8, "thorough": 16}
BUDGET_S = {"quick": 90, "thorough": 900}

ST = {"its_evals": 0, "smarts_evals": 0, "skipped": {}}
FAIL = []
_finding = None
_installed = [False]
_current = [None]   # witness of the driver's current run (for violations raised inside monitors)


def skip(reason):
    ST["skipped"][reason] = ST["skipped"].get(reason, 0) + 1


def template_sides(tpl, invert):
    """(A, B) side tables of the template as applied (swapped when invert)."""
    from synkit.Rule.syn_rule import SynRule
    if isinstance(tpl, SynRule):
        tpl = tpl.rc.raw
    if isinstance(tpl, nx.Graph):
        A, B = R.its_sides(tpl)
    elif isinstance(tpl, str):
        a, b = tpl.split(">>")
        A, B = R.side_tables(a), R.side_tables(b)
        if A is None or B is None:
            return None
    else:
        return None
    return (B, A) if invert else (A, B)


def template_class(A, B):
    """'explicit' / 'implicit' / 'mixed' / 'wildcard' decided from the template alone; plus balanced flag."""
    if any(v[0] == "*" for v in list(A[0].values()) + list(B[0].values())):
        return "wildcard", False
    dH = {k: B[0][k][1] - A[0][k][1] for k in A[0] if k in B[0]}
    dQ = {k: B[0][k][2] - A[0][k][2] for k in A[0] if k in B[0]}
    changed = [e for e in set(A[1]) | set(B[1]) if A[1].get(e, 0) != B[1].get(e, 0)]
    h_centre = any(A[0].get(k, ("",))[0] == "H" for e in changed for k in e)
    if set(A[0]) != set(B[0]):
        return "unbalanced-atoms", False
    # hydrogens written as atoms count as hydrogen on both sides
    balanced = sum(dH.values()) == 0 and sum(dQ.values()) == 0
    if not any(dH.values()):
        return "explicit", balanced
    if not h_centre:
        return "implicit", balanced
    return "mixed", balanced


KF_RELAY = "explicit-h-relay-atom"
KF_ROUND = "glue-rounds-increment-on-fractional-bond"
KF_EXPAND = "explicit-expansion-leaves-product-hcount"


def classify_change_graph_miss(its, GA, GB, cg, tcg):
    """attribute a change-graph mismatch to one of two recorded mechanisms (else None):
    KF_ROUND  - a rule-formed bond landed on an existing substrate bond of non-integral order (aromatic); the glue
                rounds `host order + increment`, so the bond changes by a fractional amount although the template's
                increments are all integral;
    KF_EXPAND - an atom whose hydrogens were expanded into nodes for the explicit re-match but which is not changed by
                the rule keeps its old product-side hydrogen count: it appears as an isolated extra node (X, +k) of the
                change graph, with exactly k unchanged explicit hydrogen neighbours."""
    import networkx as nx
    if all(float(d["d"]).is_integer() for _, _, d in tcg.edges(data=True)):
        for u, v, d in cg.edges(data=True):
            a = GA[1].get(frozenset((u, v)), 0)
            if not float(d["d"]).is_integer() and not float(a).is_integer():
                return KF_ROUND
    extra = []
    for n in list(cg.nodes):
        if cg.degree(n) == 0 and cg.nodes[n]["lab"][0] != "H":
            k = cg.nodes[n]["lab"][1]
            hn = [m for m in its[n] if its.nodes[m].get("element") == "H" and tuple(its[n][m]["order"])[0] == tuple(its[n][m]["order"])[1] != 0]
            t0, t1 = its.nodes[n]["typesGH"]
            if k > 0 and len(hn) >= k and t1[2] - t0[2] == k and t0[:2] == t1[:2] and t0[3] == t1[3]:
                extra.append(n)
    if extra:
        h = cg.copy()
        h.remove_nodes_from(extra)
        if R.cg_iso(h, tcg):
            return KF_EXPAND
    return None


def has_relay_atom(A, B):
    """a heavy atom that loses a bond to one explicit hydrogen and gains a bond to another one (it both gives and
    receives a migrating hydrogen); decided from the template alone."""
    def hn(side, k):
        return {x for e in side[1] if k in e for x in e if x != k and side[0].get(x, ("",))[0] == "H"}
    for k, v in A[0].items():
        if v[0] == "H" or k not in B[0]:
            continue
        a, b = hn(A, k), hn(B, k)
        if (a - b) and (b - a):
            return True
    return False


def check_reactor(rx, its_list=None, smarts=None):
    """called from the monitors; records problems in FAIL."""
    sides = template_sides(rx.template, rx.invert)
    if sides is None:
        return skip("template-unreadable")
    A, B = sides
    global _finding
    _finding = KF_RELAY if (rx.explicit_h and has_relay_atom(A, B)) else None
    cls, balanced = template_class(A, B)
    if rx.partial:
        return skip("partial")
    if cls in ("wildcard", "mixed", "unbalanced-atoms"):
        return skip("template-" + cls)
    if cls == "explicit" and rx.implicit_temp:
        return skip("flags-inconsistent")
    if cls == "implicit" and not (rx.implicit_temp and not rx.explicit_h):
        return skip("flags-inconsistent")
    host = rx.graph.raw
    wit = dict(_current[0] or {})
    wit.setdefault("substrate", rx.substrate if isinstance(rx.substrate, str) else "<graph>")
    wit.update({"invert": rx.invert, "strategy": str(rx.strategy), "explicit_h": rx.explicit_h, "implicit_temp": rx.implicit_temp})
    if its_list is not None:
        tcg = R.change_graph_from_sides(A, B)
        hf = R.host_form(host)
        for k, g in enumerate(its_list):
            ST["its_results"] = ST.get("its_results", 0) + 1
            try:
                GA, GB = R.its_sides(g)
            except Exception as e:
                FAIL.append((_finding, "its-malformed", wit, f"glued ITS #{k} cannot be read: {e}"))
                continue
            ST["ident"] = ST.get("ident", 0) + 1
            if not R.same_labelled(R.labelled(R.implicit_form(GA)), hf):
                FAIL.append((_finding, "substrate-altered", {**wit, "result_index": k},
                             f"reactant projection of glued ITS #{k} is not the substrate (atoms, hydrogen counts, charges or bonds differ)"))
                continue
            ST["cg"] = ST.get("cg", 0) + 1
            cg = R.change_graph_from_sides(GA, GB)
            if not R.cg_iso(cg, tcg):
                fnd = _finding or classify_change_graph_miss(g, GA, GB, cg, tcg)
                FAIL.append((fnd, "change-graph", {**wit, "result_index": k,
                                              "result_changes": sorted((sorted(e), d["d"]) for *e, d in cg.edges(data=True))[:8],
                                              "template_changes": sorted((sorted(e), d["d"]) for *e, d in tcg.edges(data=True))[:8]},
                             f"glued ITS #{k} does not differ from the substrate by exactly the template's changes"))
            # workload features
            if any(GA[1].get(frozenset(e), 0) and d["d"] > 0 for *e, d in cg.edges(data=True)):
                ST["ringclose"] = ST.get("ringclose", 0) + 1
            if any(abs(d["lab"][1]) >= 2 for _, d in cg.nodes(data=True)):
                ST["multih"] = ST.get("multih", 0) + 1
    if smarts is not None:
        sub = rx.substrate if isinstance(rx.substrate, str) else None
        sub_frags = R.fragments_canonical(sub) if sub else None
        tcg_s, its_ok = None, False
        for k, s in enumerate(smarts):
            ST["smarts_results"] = ST.get("smarts_results", 0) + 1
            if not s or ">>" not in s:
                FAIL.append((_finding, "smarts-malformed", wit, f"result #{k} is {s!r}"))
                continue
            a, b = s.split(">>")
            side = b if rx.invert else a
            if sub_frags is not None:
                if R.fragments_canonical(side) != sub_frags:
                    FAIL.append((_finding, "substrate-side", {**wit, "result": s}, f"result #{k}: the substrate side {side!r} is not the substrate"))
                    continue
            if balanced:
                ST["bal"] = ST.get("bal", 0) + 1
                ca, cb = R.counts(a), R.counts(b)
                if ca is None or cb is None or ca != cb:
                    FAIL.append((_finding, "not-conserved", {**wit, "result": s}, f"result #{k} does not conserve elements/hydrogens/charge: {ca} vs {cb}"))
                    continue
            # (c) on the returned string itself: its atom maps must describe the template's changes too.  Only for
            # results without aromatic atoms (bond orders of a string are then unambiguous), and only when every glued
            # ITS of this reactor passed the same comparison (otherwise the ITS-level report already covers it).
            other = a if rx.invert else b
            SA, SB = R.side_tables(side), R.side_tables(other)
            if SA is None or SB is None or set(SA[0]) != set(SB[0]) or any(v[3] for v in list(SA[0].values()) + list(SB[0].values())):
                continue
            if tcg_s is None:
                tcg_s = R.change_graph_from_sides(A, B)
                try:
                    its_ok = all(R.cg_iso(R.change_graph_from_sides(*R.its_sides(g)), tcg_s) for g in rx.its_list)
                except Exception:
                    its_ok = False
            if not its_ok:
                continue
            ST["cg_str"] = ST.get("cg_str", 0) + 1
            cg_s = R.change_graph_from_sides(SA, SB)
            if not R.cg_iso(cg_s, tcg_s):
                FAIL.append((_finding, "change-graph-of-string", {**wit, "result": s,
                                                                  "result_changes": sorted((sorted(e), d["d"]) for *e, d in cg_s.edges(data=True))[:8],
                                                                  "template_changes": sorted((sorted(e), d["d"]) for *e, d in tcg_s.edges(data=True))[:8]},
                             f"result #{k}: the atom maps of the returned reaction do not describe the template's changes although every glued ITS does"))


def install():
    if _installed[0]:
        return
    from synkit.Synthesis.Reactor.syn_reactor import SynReactor
    from vmon import hook

    RC.install()

    def mk_its(orig):
        def its_list(self):
            first = self._its is None
            out = orig(self)
            if first:
                ST["its_evals"] += 1
                try:
                    check_reactor(self, its_list=out)
                except Exception as e:
                    skip("monitor-error:" + type(e).__name__)
            return out
        return its_list

    def mk_sm(orig):
        def smarts_list(self):
            first = self._smarts is None
            out = orig(self)
            if first:
                ST["smarts_evals"] += 1
                try:
                    check_reactor(self, smarts=out)
                except Exception as e:
                    skip("monitor-error:" + type(e).__name__)
            return out
        return smarts_list

    hook.wrap_method(SynReactor, "its_list", mk_its)
    hook.wrap_method(SynReactor, "smarts_list", mk_sm)
    # aliases defined in the class body hold the *old* property objects: re-point them
    SynReactor.its = property(lambda self: self.its_list)
    SynReactor.smarts = property(lambda self: self.smarts_list)
    _installed[0] = True


def flush(ctx):
    for k_src, k_dst in (("its_evals", "its_monitor_evals"), ("smarts_evals", "smarts_monitor_evals"), ("its_results", "its_results_checked"),
                         ("smarts_results", "smarts_results_checked"), ("ident", "substrate_identity_checked"), ("cg", "change_graph_checked"),
                         ("bal", "balance_checked"), ("cg_str", "change_graph_of_string_checked"), ("ringclose", "results_with_ring_closing_on_existing_bond"), ("multih", "results_with_multi_h_transfer")):
        ctx.count(k_dst, ST.get(k_src, 0))
        ST[k_src] = 0
    for r, n in ST["skipped"].items():
        ctx.count("skipped/" + r, n)
    ST["skipped"] = {}
    seen = set()
    for finding, kind, wit, msg in FAIL:
        key = (kind, str(wit.get("template_rid")), str(wit.get("substrate"))[:80], wit.get("dir"))
        if key in seen:
            continue
        seen.add(key)
        ctx.violation(kind, wit, msg, finding=finding)
    del FAIL[:]


SYNTH_SUBSTRATES = ["ClCN", "C=CC=CC=C", "C=CC=C.C=C", "CC(=O)C.NCC", "CC=O.NO", "CC(=O)O.OC", "CCBr.N", "C=C.Br", "CC=C.Br",
                    "NCCCl", "C1=CC=CC1.C=CC=O", "OCC(=O)O", "CC(=O)Cl.N", "C=CC(C)=C.C=CC(=O)OC", "CC(C)=O.O", "CCC(C)=O.O",
                    # both template components inside one molecule, on atoms that are already bonded (multiple bonds included)
                    "BrCC", "BrC=C", "BrC#C", "BrCC#C", "BrC#CC", "CC(Br)C#C", "BrC#N", "C=C=O", "ClC#C", "ClC=C=O", "OC#C", "NC#CCl"]
SYNTH_TEMPLATES = [
    "[CH3:1][Cl:2].[NH3:3]>>[CH3:1][NH2:3].[ClH:2]",
    "[CH2:1]=[CH:2][CH:3]=[CH2:4].[CH2:5]=[CH2:6]>>[CH2:1]1[CH:2]=[CH:3][CH2:4][CH2:5][CH2:6]1",
    "[CH3:1][C:2](=[O:3])[CH3:4].[NH2:5][CH3:6]>>[CH3:1][C:2](=[N:5][CH3:6])[CH3:4].[OH2:3]",
    "[CH3:1][C:2](=[O:3])[OH:4].[CH3:5][OH:6]>>[CH3:1][C:2](=[O:3])[O:6][CH3:5].[OH2:4]",
    "[CH2:1]=[CH2:2].[BrH:3]>>[CH3:1][CH2:2][Br:3]",
    "[CH3:1][C:2](=[O:3])[CH3:4].[N:5]([H:7])([H:8])[CH3:6]>>[CH3:1][C:2](=[N:5][CH3:6])[CH3:4].[O:3]([H:7])[H:8]",
    "[CH3:1][Cl:2].[N:3]([H:4])([H:5])[H:6]>>[CH3:1][N:3]([H:5])[H:6].[Cl:2][H:4]",
    # coupling with loss of HBr / HCl / water between two sites that may sit in one molecule
    "[CH3:1][Br:2].[CH3:3][H:4]>>[CH3:1][CH3:3].[Br:2][H:4]",
    "[CH3:1][Cl:2].[CH4:3]>>[CH3:1][CH3:3].[ClH:2]",
    "[CH3:1][OH:2].[CH4:3]>>[CH3:1][CH3:3].[OH2:2]",
    # water relays a hydrogen: O6 gives H7 to the carbonyl oxygen and receives H5 from the alpha carbon
    "[CH3:1][C:2](=[O:3])[CH2:4][H:5].[O:6]([H:7])[H:8]>>[CH3:1][C:2]([O:3][H:7])=[CH2:4].[O:6]([H:5])[H:8]",
]


def graph_substrate(smi, style, rng):
    from synkit.IO.chem_converter import smiles_to_graph
    g = smiles_to_graph(smi, drop_non_aam=False, use_index_as_atom_map=True)
    if g is None:
        return None
    nodes = sorted(g.nodes)
    n = len(nodes)
    if style == "zero":
        mp = {v: i for i, v in enumerate(nodes)}
    elif style == "sparse":
        mp = {v: 3 * i + 5 for i, v in enumerate(nodes)}
    else:   # ids 1..n except one atom that carries an id just above n
        mp = {v: i + 1 for i, v in enumerate(nodes)}
        mp[rng.choice(nodes)] = n + rng.randint(1, 2)
    h = nx.relabel_nodes(g, mp, copy=True)
    for v in h.nodes:
        h.nodes[v]["atom_map"] = v if v else 0
    return h


def one_run(ctx, sub, tpl, invert, strategy, flags, wit, tag):
    _current[0] = wit
    out = RC.run(sub, tpl, invert, strategy=strategy, flags=flags, want_its=True)
    _current[0] = None
    ctx.count("runs/bwd" if invert else "runs/fwd")
    ctx.count("strategy/" + strategy)
    if "error" in out:
        ctx.count("runs_with_exception")
        return None
    n = len(out["smarts"])
    ctx.case(("run", wit, strategy, tuple(sorted(flags.items()))), nontrivial=n >= 1,
             sample={"space": tag, **{k: v for k, v in wit.items() if k != "tpl"}, "strategy": strategy, "results": out["smarts"][:2]}
             if (ctx.evaluations < 2 or ctx.rng.random() < 0.004) else None)
    return out


def run(ctx):
    install()
    RC.RUN_TIMEOUT_S[0] = 10 if ctx.quick else 45
    rng = ctx.rng
    rx = RC.rxns()
    admissible = [x for x in rx if RC.flags_for(x["mode"])]
    # --- own-template runs --- #
    cases = RC.case_list(kinds=("rc", "its"), strategies=("all", "comp", "bt"))
    step = 12 if ctx.quick else 1
    for i, (rid, kind, d, s) in enumerate(cases):
        if not ctx.mine(i) or ((i // ctx.nshards) % step != ctx.seed % step and rid < 10000):
            continue
        if ctx.out_of_time(0.55):
            ctx.count("own_truncated_by_budget")
            break
        x = RC.rx_by_id(rid)
        alt = x["mode"] == "explicit" and rng.random() < 0.3
        ctx.count("runs/own-template")
        ctx.count("runs/" + x["mode"])
        one_run(ctx, x["a"] if d == "fwd" else x["b"], RC.template_of(x["rsmi"], kind), d == "bwd", s,
                RC.flags_for(x["mode"], alt), {"template_rid": rid, "kind": kind, "dir": d, "substrate_rid": rid}, "own-template (corpus)")
    # --- foreign-template runs: template of reaction i on the substrate of reaction j --- #
    n = 150 if ctx.quick else 6000
    for t in range(n):
        if ctx.out_of_time(0.9):
            ctx.count("foreign_truncated_by_budget")
            break
        xi, xj = rng.choice(admissible), rng.choice(admissible)
        if xi["mode"] != xj["mode"] and rng.random() < 0.7:
            continue
        kind = rng.choice(["rc", "rc", "its"]) if xi["cc"] else "its"
        d = rng.choice(["fwd", "bwd"])
        ctx.count("runs/foreign-template")
        ctx.count("runs/" + xi["mode"])
        one_run(ctx, xj["a"] if d == "fwd" else xj["b"], RC.template_of(xi["rsmi"], kind), d == "bwd", rng.choice(["all", "comp", "bt"]),
                RC.flags_for(xi["mode"]), {"template_rid": xi["rid"], "kind": kind, "dir": d, "substrate_rid": xj["rid"]}, "foreign-template (corpus)")
    # --- small synthetic pairs (intra-molecular matches, several H moved between one pair) --- #
    for ti, tpl in enumerate(SYNTH_TEMPLATES):
        for si, sub in enumerate(SYNTH_SUBSTRATES):
            if not ctx.mine(ti * 31 + si):
                continue
            mode = R.hmode(tpl)
            fl = RC.flags_for(mode)
            if fl is None:
                continue
            for d in ("fwd", "bwd"):
                ctx.count("runs/foreign-template")
                ctx.count("runs/" + mode)
                one_run(ctx, sub, tpl, d == "bwd", "all", fl, {"template": tpl, "substrate": sub, "dir": d}, "synthetic templates x small substrates")
                if mode == "explicit":
                    one_run(ctx, sub, tpl, d == "bwd", "all", RC.flags_for(mode, True), {"template": tpl, "substrate": sub, "dir": d, "alt": True}, "synthetic templates x small substrates")
                # the same substrate handed over as a graph whose node ids are not 1..n (0-based, sparse, one id just above n)
                if (ti + si) % 2 == 0:
                    gsub = graph_substrate(sub, ("zero", "sparse", "gap")[(ti + si) // 2 % 3], ctx.rng)
                    if gsub is not None:
                        ctx.count("graph_substrate_runs")
                        one_run(ctx, gsub, tpl, d == "bwd", "all", fl, {"template": tpl, "substrate": sub, "dir": d, "substrate_ids": sorted(gsub.nodes)},
                                "synthetic templates x graph substrates with unusual node ids")
    flush(ctx)
    if not ctx.quick and ctx.shard == 0:
        from vmon import suite
        suite.run_under(ctx, "c03")  # the repository's own tests with this monitor installed


def replay(ctx, v):
    install()
    w = v["witness"]
    if "template" in w:
        mode = R.hmode(w["template"])
        one_run(ctx, w["substrate"], w["template"], w["dir"] == "bwd", "all", RC.flags_for(mode, bool(w.get("alt"))), w, "replay")
    else:
        x, y = RC.rx_by_id(w["template_rid"]), RC.rx_by_id(w.get("substrate_rid", w["template_rid"]))
        d = w["dir"]
        s = str(w.get("strategy", "all")).split(".")[-1].lower()
        s = {"all": "all", "component": "comp", "comp": "comp", "backtrack": "bt", "bt": "bt"}.get(s, "all")
        fl = {"explicit_h": w.get("explicit_h", True), "implicit_temp": w.get("implicit_temp", False)}
        one_run(ctx, y["a"] if d == "fwd" else y["b"], RC.template_of(x["rsmi"], w["kind"]), d == "bwd", s, fl, w, "replay")
    flush(ctx)
