"""C06 — subgraph search returns exactly the label-preserving monomorphisms.

Oracle: independent back-tracking enumeration (oracles.brute) of all injective pattern->host maps
with equal selected node attributes, host hcount >= pattern hcount and equal selected edge attributes.
Every call of SubgraphSearchEngine.find_subgraph_mappings made by the driver is compared as a set
(plus duplicate / input-mutation / limit / threshold contracts)."""
from __future__ import annotations

import itertools

import networkx as nx

from oracles import brute as B
from workloads import graphs as WG

RULE = (
    "one case = one (host, pattern) pair presented under a random relabelling, queried with every strategy, "
    "limit and threshold setting; distinct = distinct (host class, pattern class) resp. random pair; non-trivial = "
    "pattern with >=2 nodes and >=1 monomorphism, or a multi-component pattern/host"
)
REQUIRED = ["all_checked", "comp_checked", "bt_checked", "max_results_checked", "threshold_checked",
            "prefilter_checked", "multi_component_patterns", "host_fewer_components", "bt_fallback_used",
            "strict_guard_checked", "hcount_discriminates", "selfcheck_bruteforce_vs_permutations",
            "big_count_threshold_checked", "molecule_plus_lone_atoms_hosts", "ring_and_chain_hosts", "patterns_with_self_loops", "four_component_pairs"]
ASSUMPTIONS = [
    "COMPONENT/BACKTRACK with max_results=k: exactly min(k, n) members of the strategy's own unlimited set (which members is not prescribed)",
    "threshold t: [] required when the unlimited result has more than t maps, the full set required when every internal count is <= t, either accepted in between",
    "strict_cc_count=True: [] when the host has more components than the pattern (documented guard)",
]
SHARDS = {"quick": 8, "thorough": 16}
BUDGET_S = {"quick": 60, "thorough": 600}
NODE_ATTRS = ["element", "charge"]
EDGE_ATTRS = ["order"]


def node_ok(p, h):
    return all(p.get(k) == h.get(k) for k in NODE_ATTRS) and h.get("hcount", 0) >= p.get("hcount", 0)


def edge_ok(p, h):
    return all(p.get(k) == h.get(k) for k in EDGE_ATTRS)


def node_ok_nohc(p, h):
    return all(p.get(k) == h.get(k) for k in NODE_ATTRS)


def fz(m):
    return frozenset(m.items())


def comp_index(G):
    idx = {}
    for i, c in enumerate(nx.connected_components(G)):
        for v in c:
            idx[v] = i
    return idx


def expected_sets(host, pattern):
    L = B.embeddings(pattern, host, node_ok, edge_ok, induced=False)
    hcc = nx.number_connected_components(host)
    pcc = nx.number_connected_components(pattern)
    hidx = comp_index(host)
    pcomps = [set(c) for c in nx.connected_components(pattern)]
    D = []
    for m in L:
        imgs = []
        ok = True
        for c in pcomps:
            hs = {hidx[m[v]] for v in c}
            if len(hs) != 1:
                ok = False
                break
            imgs.append(next(iter(hs)))
        if ok and len(set(imgs)) == len(imgs):
            D.append(m)
    # per-component embedding counts (for the threshold grey zone)
    per = []
    for c in pcomps:
        sub = pattern.subgraph(c)
        per.append(len(B.embeddings(sub, host, node_ok, edge_ok, induced=False)))
    return L, D, hcc, pcc, per


def check_pair(ctx, host, pattern, tag, key, light=False):
    from synkit.Graph.Matcher.subgraph_matcher import SubgraphSearchEngine as E

    rng = ctx.rng
    h0, p0 = WG.gdigest(host), WG.gdigest(pattern)
    L, D, hcc, pcc, per = expected_sets(host, pattern)
    Ls, Ds = {fz(m) for m in L}, {fz(m) for m in D}
    wit = {"host": WG.describe(host), "pattern": WG.describe(pattern)}

    def call(**kw):
        return E.find_subgraph_mappings(host, pattern, node_attrs=NODE_ATTRS, edge_attrs=EDGE_ATTRS, **kw)

    def bad(kind, msg, **kw):
        ctx.violation(kind, {**wit, "call": kw}, msg)

    def as_set(res, kind, kw):
        s = [fz(m) for m in res]
        if len(s) != len(set(s)):
            bad("duplicates", f"{kind}: duplicate maps in {res}", **kw)
        return set(s)

    if pattern.number_of_nodes() == 0:
        return
    if len(L) > 2000 or any(c > 2000 for c in per):
        ctx.count("skipped_near_default_threshold")  # DEFAULT_THRESHOLD=5000 would legitimately empty results
        return
    # ---- ALL ---- #
    r_all = call(strategy="all")
    ctx.count("all_checked")
    if as_set(r_all, "all", {"strategy": "all"}) != Ls:
        bad("all", f"ALL returned {len(r_all)} maps, definition gives {len(L)}: extra {[dict(x) for x in list(set(map(fz, r_all)) - Ls)[:2]]} missing {[dict(x) for x in list(Ls - set(map(fz, r_all)))[:2]]}", strategy="all")
    # ---- COMPONENT ---- #
    if pcc > 1:
        ctx.count("multi_component_patterns")
    if hcc < pcc:
        ctx.count("host_fewer_components")
    exp_comp = Ls if hcc < pcc else Ds
    r_c = call(strategy="comp", strict_cc_count=False)
    ctx.count("comp_checked")
    if as_set(r_c, "comp", {"strategy": "comp", "strict_cc_count": False}) != exp_comp:
        bad("comp", f"COMPONENT(strict=False) returned {len(r_c)} maps, definition gives {len(exp_comp)} (host comps {hcc}, pattern comps {pcc})", strategy="comp", strict_cc_count=False)
    exp_strict = set() if (hcc > pcc) else exp_comp
    r_cs = call(strategy="comp")  # default strict_cc_count=True
    ctx.count("strict_guard_checked")
    if as_set(r_cs, "comp-strict", {"strategy": "comp"}) != exp_strict:
        bad("comp-strict", f"COMPONENT(default strict) returned {len(r_cs)} maps, expected {len(exp_strict)} (host comps {hcc}, pattern comps {pcc})", strategy="comp")
    # ---- BACKTRACK ---- #
    for strict, primary in ((False, exp_comp), (True, exp_strict)):
        exp_bt = primary if primary else Ls
        r_b = call(strategy="bt", strict_cc_count=strict)
        ctx.count("bt_checked")
        if not primary and Ls:
            ctx.count("bt_fallback_used")
        if as_set(r_b, "bt", {"strategy": "bt", "strict_cc_count": strict}) != exp_bt:
            bad("bt", f"BACKTRACK(strict={strict}) returned {len(r_b)} maps, expected {len(exp_bt)} (component result {len(primary)}, exhaustive {len(L)})", strategy="bt", strict_cc_count=strict)
    # does hcount matter for this pair?
    if len(B.embeddings(pattern, host, node_ok_nohc, edge_ok)) != len(L):
        ctx.count("hcount_discriminates")
    if not light:
        # ---- limits ---- #
        for k in (1, 2, 5):
            r = call(strategy="all", max_results=k)
            ctx.count("max_results_checked")
            if [fz(m) for m in r] != [fz(m) for m in r_all[:k]]:
                bad("max-results-all", f"ALL with max_results={k} is not the first {k} of its unlimited list", strategy="all", max_results=k)
            # a result limit only truncates: k (or all, if fewer) members of the set the strategy returns without a limit
            for strat, pool in (("comp", exp_comp), ("bt", exp_comp if exp_comp else Ls)):
                r = call(strategy=strat, max_results=k, strict_cc_count=False)
                s = as_set(r, strat, {"strategy": strat, "max_results": k})
                if len(r) != min(k, len(pool)) or not s <= pool:
                    bad("max-results-" + strat, f"{strat} with max_results={k} returned {len(r)} maps ({len(s - pool)} of them outside the set it returns without a limit, "
                        f"which has {len(pool)}): a limit must only truncate", strategy=strat, max_results=k)
        # ---- thresholds ---- #
        for t in (0, 1, 3):
            r = call(strategy="all", threshold=t)
            ctx.count("threshold_checked")
            exp = [] if len(L) > t else r_all
            if [fz(m) for m in r] != [fz(m) for m in exp]:
                bad("threshold-all", f"ALL with threshold={t}: {len(r)} maps, unlimited {len(L)}", strategy="all", threshold=t)
            r = call(strategy="comp", threshold=t, strict_cc_count=False)
            s = as_set(r, "comp", {"threshold": t})
            if hcc >= pcc:
                if len(exp_comp) > t and r:
                    bad("threshold-comp", f"comp with threshold={t} returned {len(r)} maps although the unlimited result has {len(exp_comp)}", strategy="comp", threshold=t)
                elif r and s != exp_comp:
                    bad("threshold-comp", f"comp with threshold={t} returned a strict subset/other set ({len(r)} of {len(exp_comp)})", strategy="comp", threshold=t)
                elif not r and exp_comp and len(exp_comp) <= t and all(c <= t for c in per):
                    bad("threshold-comp", f"comp with threshold={t} emptied a result of {len(exp_comp)} maps although no count exceeds the threshold", strategy="comp", threshold=t)
        # ---- pre-filter ---- #
        for strat, base in (("all", r_all), ("comp", r_cs), ("bt", None)):
            r = call(strategy=strat, pre_filter=True)
            ctx.count("prefilter_checked")
            ref = base if base is not None else call(strategy=strat)
            if [fz(m) for m in r] != [fz(m) for m in ref]:
                bad("prefilter", f"pre_filter=True changed the {strat} result: {len(r)} vs {len(ref)}", strategy=strat, pre_filter=True)
    if WG.gdigest(host) != h0 or WG.gdigest(pattern) != p0:
        bad("input-mutated", "host or pattern modified by the search")
    nontrivial = (pattern.number_of_nodes() >= 2 and len(L) >= 1) or pcc > 1 or hcc > 1
    ctx.case(key, nontrivial=nontrivial,
             sample={"space": tag, **wit, "monomorphisms": len(L), "distinct_component_maps": len(D)}
             if (ctx.evaluations < 2 or rng.random() < 0.0005) else None)


def atoms_graph(spec, bonds=()):
    G = nx.Graph()
    for i, el in enumerate(spec, start=1):
        G.add_node(i, element=el, hcount=0, charge=0, aromatic=False, atom_map=i, neighbors=[])
    for u, v, o in bonds:
        G.add_edge(u, v, order=float(o), standard_order=0.0)
    return G


def check_big_counts(ctx):
    """embedding counts above the engine's default cap (5000) with an explicit, larger caller threshold: the caller's
    threshold is the one that counts, in every strategy and fallback."""
    from synkit.Graph.Matcher.subgraph_matcher import SubgraphSearchEngine as E

    cases = [("8 isolated C vs 5 isolated C", atoms_graph("C" * 8), atoms_graph("C" * 5)),
             ("7 isolated C + N vs 5 isolated C", atoms_graph("C" * 7 + "N"), atoms_graph("C" * 5)),
             ("star C(C)(C)(C)(C)(C)(C)C vs star with 6 leaves", atoms_graph("C" * 8, [(1, k, 1) for k in range(2, 9)]),
              atoms_graph("C" * 7, [(1, k, 1) for k in range(2, 8)]))]
    for i, (name, host, pat) in enumerate(cases):
        if not ctx.mine(i):
            continue
        L = B.embeddings(pat, host, node_ok, edge_ok, induced=False)
        n = len(L)
        Ls = {fz(m) for m in L}
        ctx.count("big_count_cases")
        wit = {"host": WG.describe(host), "pattern": WG.describe(pat), "monomorphisms": n}
        for strat in ("all", "bt", "comp"):
            for thr, want_full in ((10000, True), (n, True), (n - 1, False)):
                r = E.find_subgraph_mappings(host, pat, node_attrs=NODE_ATTRS, edge_attrs=EDGE_ATTRS, strategy=strat,
                                             threshold=thr, strict_cc_count=False)
                ctx.count("big_count_threshold_checked")
                got = {fz(m) for m in r}
                if want_full and got != Ls and not (strat == "comp" and nx.number_connected_components(pat) > 1 and got <= Ls and thr < 10000):
                    ctx.violation("threshold-above-default-cap", {**wit, "strategy": strat, "threshold": thr},
                                  f"{name}: {strat} with threshold={thr} returned {len(r)} maps; there are {n} (<= the caller's threshold)")
                if not want_full and strat == "all" and r:
                    ctx.violation("threshold-above-default-cap", {**wit, "strategy": strat, "threshold": thr},
                                  f"{name}: all with threshold={thr} returned {len(r)} maps although {n} exceed the threshold")
            r = E.find_subgraph_mappings(host, pat, node_attrs=NODE_ATTRS, edge_attrs=EDGE_ATTRS, strategy=strat, max_results=6000,
                                         threshold=10000, strict_cc_count=False)
            if len(r) != min(n, 6000) or not {fz(m) for m in r} <= Ls:
                ctx.violation("threshold-above-default-cap", {**wit, "strategy": strat, "max_results": 6000},
                              f"{name}: {strat} with max_results=6000, threshold=10000 returned {len(r)} maps of {n}")
        ctx.case(("big", name), nontrivial=True, sample={"space": "counts above the default cap", "case": name, "monomorphisms": n})


def check_small_component_hosts(ctx):
    """component-aware search, patterns whose components all have >= 2 atoms, hosts = a molecule plus lone atoms / ions."""
    rng = ctx.rng
    pats = [atoms_graph("CCCC", [(1, 2, 1), (3, 4, 1)]), atoms_graph("CCCO", [(1, 2, 1), (3, 4, 1)]),
            atoms_graph("CCCCC", [(1, 2, 2), (3, 4, 1), (4, 5, 1)]), atoms_graph("CCCCCC", [(1, 2, 1), (3, 4, 1), (5, 6, 1)]),
            atoms_graph("CONC", [(1, 2, 2), (3, 4, 1)])]
    mols = [atoms_graph("CCCC", [(1, 2, 1), (2, 3, 1), (3, 4, 1)]), atoms_graph("CCCCO", [(1, 2, 1), (2, 3, 1), (3, 4, 1), (4, 5, 1)]),
            atoms_graph("CCCCC", [(1, 2, 2), (2, 3, 1), (3, 4, 1), (4, 5, 1)]), atoms_graph("COCNC", [(1, 2, 2), (1, 3, 1), (3, 4, 1), (4, 5, 1)]),
            atoms_graph("CCCCCC", [(1, 2, 1), (2, 3, 1), (3, 4, 1), (4, 5, 1), (5, 6, 1), (6, 1, 1)])]
    k = 0
    for pi, P in enumerate(pats):
        for mi, M in enumerate(mols):
            for lone in (("O",), ("O", "O"), ("C",), ("N", "C", "O"), ()):
                k += 1
                if not ctx.mine(k):
                    continue
                H = M.copy()
                base = max(H.nodes)
                for j, el in enumerate(lone, start=1):
                    H.add_node(base + j, element=el, hcount=0, charge=0, aromatic=False, atom_map=base + j, neighbors=[])
                if rng.random() < 0.3:
                    H = nx.union(H, nx.relabel_nodes(atoms_graph("CC", [(1, 2, 1)]), {1: base + 10, 2: base + 11}))
                H, _ = WG.scramble(H, rng)
                Ps, _ = WG.scramble(P, rng)
                ctx.count("molecule_plus_lone_atoms_hosts")
                check_pair(ctx, H, Ps, "multi-atom pattern components x hosts with lone atoms", ("lone", pi, mi, lone), light=(k % 3 != 0))


def check_ring_and_chain_hosts(ctx):
    """hosts made of a small ring and a longer open chain (fewer atoms but at least as many bonds in the ring), patterns of
    4-5 atoms incl. 'ring + separate bonded pair'; and graphs with self-loops (degree counts a loop twice)."""
    rng = ctx.rng
    def ring(n, first=1, el="C"):
        return [(first + i, first + (i + 1) % n, 1) for i in range(n)]
    def chain(n, first=1):
        return [(first + i, first + i + 1, 1) for i in range(n - 1)]
    hosts = [atoms_graph("C" * 7, ring(3) + chain(4, 4)), atoms_graph("C" * 9, ring(4) + chain(5, 5)), atoms_graph("C" * 8, ring(3) + chain(4, 4) + []),
             atoms_graph("CCCCCCCO", ring(3) + chain(4, 4)), atoms_graph("C" * 6, ring(3) + [(3, 4, 1), (4, 5, 1)]),      # ring with pendant ethyl + lone atom
             atoms_graph("C" * 7, ring(3) + [(3, 4, 1), (4, 5, 1)] + [(6, 7, 1)]), atoms_graph("C" * 8, ring(4) + chain(4, 5))]
    pats = [atoms_graph("CCCC", chain(4)), atoms_graph("CCCCC", chain(5)), atoms_graph("CCCCCC", chain(4) + [(5, 6, 1)]),
            atoms_graph("CCCCC", ring(3) + [(4, 5, 1)]), atoms_graph("CCCCCC", ring(4) + [(5, 6, 1)]), atoms_graph("CCC", ring(3))]
    k = 0
    for hi, Hh in enumerate(hosts):
        for pi, P in enumerate(pats):
            for rep in range(2):
                k += 1
                if not ctx.mine(k):
                    continue
                H2, _ = WG.scramble(Hh, rng)
                P2, _ = WG.scramble(P, rng)
                ctx.count("ring_and_chain_hosts")
                check_pair(ctx, H2, P2, "ring + chain hosts x 4-6 atom patterns", ("ringchain", hi, pi, rep), light=(rep == 1))
    # four pattern components whose candidate molecules overlap pairwise, hosts of four molecules in every fragment order
    hal = {"F": "F", "Cl": "Cl", "Br": "Br", "I": "I"}
    def halo(pairs):   # list of molecules, each a list of atoms with bonds along the chain
        G = nx.Graph()
        nid = 0
        for mol in pairs:
            prev = None
            for el in mol:
                nid += 1
                G.add_node(nid, element=el, hcount=0, charge=0, aromatic=False, atom_map=nid, neighbors=[])
                if prev:
                    G.add_edge(prev, nid, order=1.0, standard_order=0.0)
                prev = nid
        return G
    P4 = halo([["C", "F"], ["C", "Cl"], ["C", "Br"], ["C", "I"]])
    mols = [["C", "F"], ["Cl", "C", "C", "I"], ["Cl", "C", "C", "Br"], ["Br", "C", "C", "I"]]
    for oi, order in enumerate(itertools.permutations(range(4))):
        if not ctx.mine(oi) or (ctx.quick and oi % 3):
            continue
        H4 = halo([mols[i] for i in order])
        H4, _ = WG.scramble(H4, rng)
        ctx.count("four_component_pairs")
        check_pair(ctx, H4, WG.scramble(P4, rng)[0], "four-component pattern x four-molecule hosts", ("four", oi), light=True)
    for t in range(160 if ctx.quick else 1600):
        if not ctx.mine(t):
            continue
        Hh = WG.random_mol(rng, rng.randint(3, 7), components=rng.choice([1, 1, 2]))
        loops = [n for n in list(Hh.nodes) if rng.random() < 0.25] or [rng.choice(list(Hh.nodes))]
        for n in loops:
            Hh.add_edge(n, n, order=1.0, standard_order=0.0)
        # the pattern is cut out around a looped atom (so it keeps the loop) in two thirds of the cases
        if t % 3:
            centre = rng.choice(loops)
            keep = {centre} | set(rng.sample(sorted(set(Hh[centre]) - {centre}), min(len(set(Hh[centre]) - {centre}), rng.randint(0, 2))))
            P = Hh.subgraph(keep).copy()
        else:
            P = WG.planted_pattern(rng, Hh, rng.randint(1, 3))
        P, _ = WG.scramble(P, rng)
        if any(P.has_edge(n, n) for n in P.nodes):
            ctx.count("patterns_with_self_loops")
        check_pair(ctx, Hh, P, "graphs with self-loops", ("loops", t), light=False)


def selfcheck(ctx):
    """the back-tracking oracle itself vs a permutation-based enumeration on tiny pairs."""
    rng = ctx.rng
    for _ in range(60):
        H = WG.random_mol(rng, rng.randint(1, 5), components=rng.randint(1, 2))
        P = WG.random_mol(rng, rng.randint(1, 3), components=rng.randint(1, 2), hmax=1)
        a = {fz(m) for m in B.embeddings(P, H, node_ok, edge_ok)}
        b = {fz(m) for m in B.all_injections_bruteforce(P, H, node_ok, edge_ok)}
        assert a == b, "oracle self-check failed"
        ctx.count("selfcheck_bruteforce_vs_permutations")


def run(ctx):
    rng = ctx.rng
    selfcheck(ctx)
    check_small_component_hosts(ctx)
    check_ring_and_chain_hosts(ctx)
    check_big_counts(ctx)
    hosts, pats = [], []
    hmax = 3 if ctx.quick else 4
    for n in range(1, hmax + 1):
        hosts += [(n, i, r) for i, r in enumerate(WG.classes(n))]
    for n in range(1, 4):
        pats += [(n, i, r) for i, r in enumerate(WG.classes(n))]
    space = f"hosts<={hmax} nodes x patterns<=3 nodes, classes up to isomorphism, 2 elements x hcount{{0,1}} x orders{{1,2}}"
    idx = 0
    for hn, hi, hr in hosts:
        for pn, pi, pr in pats:
            idx += 1
            if not ctx.mine(idx):
                continue
            if pn > hn + 1:
                continue
            if ctx.quick and pn == 3 and (idx // ctx.nshards) % 12 != ctx.seed % 12:
                continue  # quick: 3-node patterns are sampled (1 in 12, rotated by the seed)
            if not ctx.quick and hn == 4 and pn == 3 and (idx // ctx.nshards) % 6 != ctx.seed % 6:
                continue  # thorough: 4-node hosts x 3-node patterns (3.5M pairs) are sampled 1 in 6, rotated by the seed
            # thorough: the 4-node hosts are many; the full setting sweep runs on a third of them
            light = (not ctx.quick and hn == 4 and idx % 3 != 0) or (ctx.quick and idx % 4 != 0)
            H, _ = WG.scramble(WG.to_nx(hr), rng)
            P, _ = WG.scramble(WG.to_nx(pr), rng)
            check_pair(ctx, H, P, space, ("cls", hn, hi, pn, pi), light=light)
    if ctx.quick:
        ctx.exhaustive["hosts<=3 nodes x patterns<=2 nodes (full alphabet, classes up to isomorphism)"] = True
    else:
        ctx.exhaustive["hosts<=4 nodes x patterns<=2 nodes and hosts<=3 x patterns<=3 (full alphabet, classes up to isomorphism)"] = True
    if not ctx.quick:
        red5 = WG.classes(5, WG.RED_NODE, [1, 2], 5)
        pats_red = [r for n in range(1, 4) for r in WG.classes(n, WG.RED_NODE, [1, 2])]
        sp5 = "hosts of 5 nodes (<=5 bonds) x patterns<=3 nodes, reduced alphabet 2 elements x orders{1,2}, hcount 0"
        for hi, hr in enumerate(red5):
            for pi, pr in enumerate(pats_red):
                idx += 1
                if ctx.mine(idx):
                    H, _ = WG.scramble(WG.to_nx(hr), rng)
                    P, _ = WG.scramble(WG.to_nx(pr), rng)
                    check_pair(ctx, H, P, sp5, ("cls5", hi, pi), light=True)
        ctx.exhaustive[sp5] = True
    n = 250 if ctx.quick else 5000
    for i in range(n):
        if ctx.out_of_time():
            ctx.count("random_truncated_by_budget")
            break
        H = WG.random_mol(rng, rng.randint(3, 9), components=rng.choice([1, 1, 2, 3]), p_charge=0.15)
        if rng.random() < 0.6:
            P = WG.planted_pattern(rng, H, rng.randint(1, 4))
            if rng.random() < 0.4 and H.number_of_nodes() > 4:  # multi-component planted pattern
                P2 = WG.planted_pattern(rng, H, rng.randint(1, 2))
                P = nx.union(P, nx.relabel_nodes(P2, {v: f"q{v}" for v in P2.nodes}))
            P, _ = WG.scramble(P, rng)
        else:
            P = WG.random_mol(rng, rng.randint(1, 4), components=rng.choice([1, 1, 2]), hmax=1, p_charge=0.1)
        check_pair(ctx, H, P, "random molecule-like", ("rnd", WG.describe(H), WG.describe(P)), light=(i % 2 == 1))
        ctx.count("random_pairs")


def replay(ctx, v):
    w = v["witness"]
    check_pair(ctx, WG.from_desc(w["host"]), WG.from_desc(w["pattern"]), "replay", ("replay",))
