"""C14 — batching, parallelism and caching are operational only: results never change.

Monitors: (1) per-entry differential: BatchReactor.fit output for every batch composition / order / cache setting /
worker count vs the serial single-substrate execution of the same rules through SynReactor; (2) cache-coherence
monitor wrapped around _RuleApplier.__call__: every answer is compared with a direct uncached execution (real id() on
long look-alike batches, and a legal adversarial id() injected into the module); (3) batched vs one-shot clustering;
(4) validate_smiles / dicts_balance_check with n_jobs in {1,2,4} vs one-by-one calls; (5) SynCRN.build parallel vs
serial (same species, reaction events and arcs)."""
from __future__ import annotations

import networkx as nx

from oracles import rdkit_rxn as R
from workloads import corpus
from checks import reactor_common as RC

RULE = (
    "one case = one batch (composition, order, cache size, worker counts) compared entry by entry with serial single "
    "executions, or one parallel-vs-serial run of a validator / balance checker / clusterer / network expansion; distinct = "
    "distinct configuration; non-trivial = batch with >=1 repeated or look-alike substrate and >=1 non-empty result"
)
REQUIRED = ["batch_entries_compared", "batches/cache_on", "batches/cache_off", "batches/tiny_cache", "batches/parallel_entries",
            "batches/parallel_rules", "cache_coherence_evals", "lookalike_pairs_in_batches", "repeated_substrates_in_batches",
            "validate_smiles_compared", "validate_records_where_tautomer_flag_matters", "validate_records_where_aromaticity_flag_matters", "balance_compared", "cluster_batches_compared", "syncrn_compared",
            "batches/adversarial_id", "nonempty_entry_results", "batches/explicit_mode", "batches/dedupe_off", "batches/repeated_rule_objects",
            "cluster_batches_with_attribute", "cluster_batches_with_partial_attribute",
            "cluster_batches_non_default_config", "cluster_batches_numeric_attribute", "syncrn_rule_objects_compared", "batches/rules_as_iterator", "cluster_batches_collection_attribute"]
ASSUMPTIONS = [
    "reference for one entry: SynReactor on smiles_to_graph(entry) for each rule graph in order, flattened, order-preserving de-duplication",
    "the cache-coherence monitor only sees calls made in this process (entry_n_jobs=1); worker processes are covered by the output differential",
]
SHARDS = {"quick": 6, "thorough": 12}
BUDGET_S = {"quick": 100, "thorough": 1000}

ST = {"evals": 0, "hits": 0}
FAIL = []
_installed = [False]
_adv = [None]

RULES_IMPLICIT = [
    "[CH3:1][C:2](=[O:3])[OH:4].[CH3:5][OH:6]>>[CH3:1][C:2](=[O:3])[O:6][CH3:5].[OH2:4]",
    "[CH3:1][C:2](=[O:3])[OH:4].[CH3:5][NH2:6]>>[CH3:1][C:2](=[O:3])[NH:6][CH3:5].[OH2:4]",
    "[CH3:1][Br:2].[CH3:3][OH:4]>>[CH3:1][O:4][CH3:3].[BrH:2]",
    "[CH3:1][CH:2]=[O:3].[CH3:4][NH2:5]>>[CH3:1][CH:2]=[N:5][CH3:4].[OH2:3]",
]
RULES_EXPLICIT = [
    "[CH3:1][C:2](=[O:3])[CH3:4].[N:5]([H:7])([H:8])[CH3:6]>>[CH3:1][C:2](=[N:5][CH3:6])[CH3:4].[O:3]([H:7])[H:8]",
    "[CH3:1][Cl:2].[N:3]([H:4])([H:5])[H:6]>>[CH3:1][N:3]([H:5])[H:6].[Cl:2][H:4]",
]
SUBSTRATES = ["CC(=O)O.CO", "CC(=O)[O-].CO", "CC(=O)O.OC", "OC(=O)C.CO", "CC(=O)O.CN", "CCBr.CO", "CC=O.CN", "CC(=O)O.OCCO",
              "CC(=O)O.CCO", "CC(=O)O.OCC", "NCC(=O)O.CO", "[NH3+]CC(=O)[O-].CO", "CC(=O)O.CO.CN", "OC(=O)CC(=O)O.CO", "CCO.CCBr",
              "c1ccccc1C(=O)O.CO", "CC(=O)OC", "O"]


def install(seed):
    if _installed[0]:
        return
    from synkit.Synthesis.Reactor import batch_reactor as br
    from vmon import hook, advid

    def mk(orig):
        def __call__(self, substrate, rule, inv):
            out = orig(self, substrate, rule, inv)
            ST["evals"] += 1
            try:
                ref = self._execute(substrate, rule, inv)
                if list(out) != list(ref):
                    FAIL.append({"got": list(out)[:3], "direct": list(ref)[:3], "cache_size": None if self._cache is None else len(self._cache)})
            except Exception:
                pass
            return out
        return __call__

    hook.wrap_method(br._RuleApplier, "__call__", mk)
    _adv[0] = (br, advid)
    _installed[0] = True


def set_adversarial(on, seed=0):
    br, advid = _adv[0]
    if on:
        return advid.install(br, seed)
    if "id" in br.__dict__:
        del br.id
    return None


def reference(entry, rule_graphs, invert, strategy, explicit_h, implicit_temp, dedupe=True):
    from synkit.IO.chem_converter import smiles_to_graph
    from synkit.Synthesis.Reactor.syn_reactor import SynReactor

    g = smiles_to_graph(entry, drop_non_aam=False, use_index_as_atom_map=False)
    flat = []
    for r in rule_graphs:
        try:
            rx = SynReactor(substrate=g, template=r, invert=invert, strategy=strategy, explicit_h=explicit_h, implicit_temp=implicit_temp)
            flat.extend(list(rx.smarts_list))
        except Exception:
            pass
    if not dedupe:
        return flat
    seen, out = set(), []
    for x in flat:
        if x not in seen:
            seen.add(x)
            out.append(x)
    return out


def canon_out(lst):
    """results are reaction strings with maps; compare order-insensitively after standardisation, and also as raw lists."""
    return sorted(x for x in (RC.std_fit(s) for s in lst) if x)


def check_batch(ctx, entries, rules, cfg, tag):
    from synkit.Synthesis.Reactor.batch_reactor import BatchReactor

    invert = cfg.get("invert", False)
    kw = {k: v for k, v in cfg.items() if k not in ("invert", "adversarial", "refit", "graphs", "mode", "repeat_objs", "rules_as_iterator")}
    rule_graphs = BatchReactor._ensure_graph_rules(rules)
    if cfg.get("repeat_objs"):
        # the caller's rule list holds the same template object more than once (rules sampled with replacement)
        rule_graphs = [rule_graphs[i % len(rule_graphs)] for i in cfg["repeat_objs"]]
        ctx.count("batches/repeated_rule_objects")
    fit_rules = rule_graphs if (cfg.get("graphs") or cfg.get("repeat_objs")) else rules
    dedupe = cfg.get("dedupe", True)
    if not dedupe:
        ctx.count("batches/dedupe_off")
    if cfg.get("adversarial"):
        ctx.count("batches/adversarial_id")
        set_adversarial(True, ctx.seed * 17 + ctx.evaluations)
    try:
        eh, it = (True, False) if cfg.get("mode") == "explicit" else (False, True)
        if cfg.get("rules_as_iterator"):
            ctx.count("batches/rules_as_iterator")
            fit_rules = iter(list(fit_rules)) if ctx.rng.random() < 0.5 else (r_ for r_ in list(fit_rules))
        try:
            b = BatchReactor(entries, strategy="bt", explicit_h=eh, implicit_temp=it, enable_logging=True, **kw)
            res = b.fit(fit_rules, invert=invert)
            if cfg.get("refit"):
                res = b.fit(fit_rules if cfg.get("repeat_objs") else rules, invert=invert)  # same reactor again: cache survives
        except Exception as e:
            ctx.violation("batch-raises", {"entries": entries, "rules": rules, "cfg": cfg},
                          f"BatchReactor{sorted(kw.items())} raises {type(e).__name__}: {str(e)[:150]} (the same entries are processed alone without error)")
            return
    finally:
        if cfg.get("adversarial"):
            set_adversarial(False)
    key = "syn_bw" if invert else "syn_fw"
    wit = {"entries": entries, "rules": rules, "cfg": cfg}
    if len(res) != len(entries):
        ctx.violation("batch-length", wit, f"{len(res)} results for {len(entries)} entries")
        return
    nonempty = 0
    for i, (e, r) in enumerate(zip(entries, res)):
        ref = reference(e, rule_graphs, invert, "bt", *((True, False) if cfg.get("mode") == "explicit" else (False, True)), dedupe=dedupe)
        got = r.get(key)
        ctx.count("batch_entries_compared")
        if got is None or canon_out(got) != canon_out(ref) or r.get("count") != len(got) or (not dedupe and list(got) != list(ref)):
            ctx.violation("batch-differs-from-single", {**wit, "index": i, "entry": e, "got": (got or [])[:2], "alone": ref[:2]},
                          f"entry #{i} ({e}) gets {len(got or [])} result(s) in the batch but {len(ref)} when processed alone")
            break
        if ref:
            nonempty += 1
    ctx.count("nonempty_entry_results", nonempty)
    for f in FAIL[:2]:
        ctx.violation("cache-incoherent", {**wit, **f}, f"cached answer differs from a direct execution: {f['got']} vs {f['direct']}")
    del FAIL[:]
    ctx.count("cache_coherence_evals", ST["evals"])
    ST["evals"] = 0
    ctx.count("batches/cache_on" if cfg.get("cache_enabled", True) else "batches/cache_off")
    if cfg.get("cache_maxsize", 99) <= 8:
        ctx.count("batches/tiny_cache")
    if cfg.get("entry_n_jobs", 1) > 1:
        ctx.count("batches/parallel_entries")
    if cfg.get("parallel_rules"):
        ctx.count("batches/parallel_rules")
    uniq = len(set(entries))
    if uniq < len(entries):
        ctx.count("repeated_substrates_in_batches")
    if any(a in entries and b in entries for a, b in (("CC(=O)O.CO", "CC(=O)[O-].CO"), ("NCC(=O)O.CO", "[NH3+]CC(=O)[O-].CO"))):
        ctx.count("lookalike_pairs_in_batches")
    ctx.case(("batch", entries, rules, sorted(cfg.items())), nontrivial=nonempty >= 1 and (uniq < len(entries) or len(entries) > 3),
             sample={"space": tag, "n_entries": len(entries), "cfg": cfg, "first": entries[:3]} if ctx.rng.random() < 0.1 or ctx.evaluations < 2 else None)


def check_validators(ctx):
    from synkit.Chem.Reaction.aam_validator import AAMValidator
    from synkit.Chem.Reaction.balance_check import BalanceReactionCheck

    rng = ctx.rng
    wf = [r for _, r in corpus.wellformed_reactions()]
    recs = []
    for r in rng.sample(wf, 6 if ctx.quick else 30):
        a = corpus.renumber(r, rng)
        bad = corpus.renumber(r, rng)
        maps = sorted({int(m) for m in __import__("re").findall(r":(\d+)\]", r)})
        if len(maps) >= 2 and rng.random() < 0.5:
            i, j = rng.sample(maps, 2)
            x, y = bad.split(">>")
            bad = x + ">>" + __import__("re").sub(r":(\d+)\]", lambda m: ":%d]" % ({i: j, j: i}.get(int(m.group(1)), int(m.group(1)))), y)
        recs.append({"ground_truth": r, "m1": a, "m2": bad})
    # tautomer-sensitive records
    recs.append({"ground_truth": "[CH3:1][C:2](=[O:3])[CH3:4]>>[CH2:1]=[C:2]([OH:3])[CH3:4]", "m1": "[CH3:1][C:2](=[O:3])[CH3:4]>>[CH2:1]=[C:2]([OH:3])[CH3:4]",
                 "m2": "[CH3:4][C:2](=[O:3])[CH3:1]>>[CH2:4]=[C:2]([OH:3])[CH3:1]"})
    # mappings that differ from the ground truth only by the choice between tautomer-equivalent atoms
    # (which carboxylic oxygen leaves): the verdict depends on ignore_tautomers
    for alc, k in (("[CH3:5][OH:6]", "[CH3:5]"), ("[CH3:5][CH2:7][OH:6]", "[CH3:5][CH2:7]"), ("[CH3:5][NH2:6]", "[CH3:5]")):
        het = "O" if "OH" in alc else "N"
        hs = "" if het == "O" else "H"
        left = f"[CH3:1][C:2](=[O:3])[OH:4].{alc}"
        tail = alc.replace("[OH:6]", "").replace("[NH2:6]", "")
        prod_a = f"[CH3:1][C:2](=[O:3])[{het}{hs}:6]{''.join(reversed(__import__('re').findall(r'\[[^\]]*\]', tail)))}.[OH2:4]"
        prod_b = prod_a.replace("[O:3]", "[O:_]").replace("[OH2:4]", "[OH2:3]").replace("[O:_]", "[O:4]")
        recs.append({"ground_truth": left + ">>" + prod_a, "m1": left + ">>" + prod_b, "m2": left + ">>" + prod_a})
    # records whose mappings differ only on bonds that change by half an order (aromatisation): verdict depends on
    # ignore_aromaticity
    import re as _re
    arom = []
    for r in wf:
        a_, b_ = r.split(">>")
        A_, B_ = R.side_tables(a_), R.side_tables(b_)
        if A_ is None or B_ is None or len(r) > 400:
            continue
        half = [e for e in set(A_[1]) | set(B_[1]) if abs(A_[1].get(e, 0) - B_[1].get(e, 0)) == 0.5]
        if len(half) >= 4:
            arom.append((r, sorted({k for e in half for k in e})))
        if len(arom) >= (2 if ctx.quick else 8):
            break
    for r, ring in arom:
        same = [(i, j) for x, i in enumerate(ring) for j in ring[x + 1:]]
        rng.shuffle(same)
        for i, j in same[:3]:
            x_, y_ = r.split(">>")
            t_ = x_ + ">>" + _re.sub(r":(\d+)\]", lambda m: ":%d]" % ({i: j, j: i}.get(int(m.group(1)), int(m.group(1)))), y_)
            recs.append({"ground_truth": r, "m1": t_, "m2": corpus.renumber(r, rng)})
    # aromatisation with a substituent introduced at two non-equivalent ring positions: the two mappings differ only on
    # bonds changing by half an order, so the RC verdict depends on ignore_aromaticity
    for X in ("Br", "Cl"):
        left = f"[CH:1]1=[CH:2][CH:3]=[CH:4][CH2:5][CH2:6]1.[{X}:7][{X}:8]"
        inner = f"{left}>>[cH:1]1[c:2]([{X}:7])[cH:3][cH:4][cH:5][cH:6]1.[{X}H:8]"
        term = f"{left}>>[c:1]1([{X}:7])[cH:2][cH:3][cH:4][cH:5][cH:6]1.[{X}H:8]"
        recs.append({"ground_truth": inner, "m1": term, "m2": corpus.renumber(inner, rng)})
        recs.append({"ground_truth": term, "m1": inner, "m2": term})
    # tautomer enumeration is expensive on large mixtures: the ignore_tautomers=False runs use the small records only
    small = [m for m in recs if len(m["ground_truth"]) < 160]
    recs_by_flag = {True: recs, False: small}
    bases = {(method, ign, ia): [[AAMValidator.check_pair(m, col, "ground_truth", method, ia, ign) for m in recs_by_flag[ign]] for col in ("m1", "m2")]
             for method in ("RC", "ITS") for ign in (True, False) for ia in (False, True)}
    for method in ("RC", "ITS"):
        if bases[(method, True, False)] != bases[(method, True, True)]:
            ctx.count("validate_records_where_aromaticity_flag_matters")
    for nj in (1, 2, 4):  # worker count outermost: joblib re-uses its executor while n_jobs stays the same
        for (method, ign, ia), base in bases.items():
            recs = recs_by_flag[ign]
            if True:
                out = AAMValidator.validate_smiles(recs, "ground_truth", ["m1", "m2"], method, ia, nj, 0, ign)
                ctx.count("validate_smiles_compared")
                got = [o["results"] for o in out]
                if ign is False and any(a != b for a, b in zip(base[0], [AAMValidator.check_pair(m, "m1", "ground_truth", method, False, True) for m in recs])):
                    ctx.count("validate_records_where_tautomer_flag_matters")
                if got != base:
                    ctx.violation("validate-smiles-depends-on-workers", {"method": method, "ignore_tautomers": ign, "ignore_aromaticity": ia, "n_jobs": nj, "records": recs[:3]},
                                  f"validate_smiles(n_jobs={nj}, ignore_tautomers={ign}, ignore_aromaticity={ia}, {method}) = {got} but one-by-one checks give {base}")
    rx = rng.sample(wf, 8 if ctx.quick else 40)
    rx += [r.split(">>")[0] + ">>" + ".".join(r.split(">>")[1].split(".")[:-1]) for r in rx[:4] if "." in r.split(">>")[1]]
    rng.shuffle(rx)
    base = [BalanceReactionCheck.rsmi_balance_check(r) for r in rx]
    for nj in (1, 2, 4):
        bal, unbal = BalanceReactionCheck(n_jobs=nj).dicts_balance_check(list(rx))
        ctx.count("balance_compared")
        want_b = [r for r, ok in zip(rx, base) if ok]
        want_u = [r for r, ok in zip(rx, base) if not ok]
        if [d["reactions"] for d in bal] != want_b or [d["reactions"] for d in unbal] != want_u:
            ctx.violation("balance-depends-on-workers", {"n_jobs": nj, "reactions": rx[:3]}, f"dicts_balance_check(n_jobs={nj}) differs from one-by-one results / order")


def check_cluster_batches(ctx):
    from synkit.Graph.Matcher.batch_cluster import BatchCluster
    from checks import c13

    rng = ctx.rng
    for _ in range(2 if ctx.quick else 20):
        graphs = c13.build_multiset(ctx)
        want = c13.oracle_classes(graphs)
        one, _ = BatchCluster().fit([{"gml": g} for g in graphs], None, rule_key="gml", attribute_key=None, batch_size=None)
        for bs in (1, 2, 5):
            got, _ = BatchCluster().fit([{"gml": g} for g in graphs], None, rule_key="gml", attribute_key=None, batch_size=bs)
            ctx.count("cluster_batches_compared")
            if not c13.same_partition([e["class"] for e in got], [e["class"] for e in one]) or not c13.same_partition([e["class"] for e in got], want):
                ctx.violation("cluster-depends-on-batch-size", {"batch_size": bs, "n": len(graphs)}, f"batch_size={bs} gives a different partition than one-shot clustering")
        # non-default matcher configuration (element only / element+charge+hcount): the one-shot path has to use it too;
        # numeric pre-grouping attribute (atom count)
        for cfg_names, cfg_defaults in ((["element"], ["*"]), (["element", "charge", "hcount"], ["*", 0, 0])):
            def mk():
                return BatchCluster(node_label_names=list(cfg_names), node_label_default=list(cfg_defaults))
            try:
                one_c, _ = mk().fit([{"gml": g} for g in graphs], None, rule_key="gml", attribute_key=None, batch_size=None)
                for bs in (1, 3):
                    got_c, _ = mk().fit([{"gml": g} for g in graphs], None, rule_key="gml", attribute_key=None, batch_size=bs)
                    ctx.count("cluster_batches_non_default_config")
                    if not c13.same_partition([e["class"] for e in got_c], [e["class"] for e in one_c]):
                        ctx.violation("cluster-depends-on-batch-size", {"batch_size": bs, "n": len(graphs), "node_label_names": cfg_names},
                                      f"BatchCluster(node_label_names={cfg_names}): batch_size={bs} gives {len(set(e['class'] for e in got_c))} classes, "
                                      f"one-shot clustering {len(set(e['class'] for e in one_c))}")
                        break
            except Exception as e:
                ctx.violation("cluster-depends-on-batch-size", {"node_label_names": cfg_names}, f"configured BatchCluster raises {type(e).__name__}: {e}")
        # collection-valued pre-grouping attributes: element list in node order (a multiset invariant), and a mixed tuple
        for aname, vals in (("element list in node order", [[d.get("element") for _, d in g.nodes(data=True)] for g in graphs]),
                            ("(atom count, ring flag) tuple", [(g.number_of_nodes(), "cyclic" if g.number_of_edges() >= g.number_of_nodes() else None) for g in graphs])):
            def dat():
                return [{"gml": g, "a": v} for g, v in zip(graphs, vals)]
            try:
                one_l, _ = BatchCluster().fit(dat(), None, rule_key="gml", attribute_key="a", batch_size=None)
                c_l = [e["class"] for e in one_l]
            except Exception as e:
                c_l = f"{type(e).__name__}: {e}"
            try:
                got_l, _ = BatchCluster().fit(dat(), None, rule_key="gml", attribute_key="a", batch_size=3)
                g_l = [e["class"] for e in got_l]
            except Exception as e:
                g_l = f"{type(e).__name__}: {e}"
            ctx.count("cluster_batches_collection_attribute")
            if isinstance(c_l, str) or isinstance(g_l, str) or not c13.same_partition(g_l, c_l) or not c13.same_partition(c_l, want):
                ctx.violation("cluster-depends-on-batch-size", {"attribute": aname, "n": len(graphs)},
                              f"pre-grouping attribute '{aname}': one-shot clustering gives {c_l if isinstance(c_l, str) else len(set(c_l))} classes, "
                              f"batch_size=3 gives {g_l if isinstance(g_l, str) else len(set(g_l))}, isomorphism classes {len(set(want))}")
        # back-end name in another case
        try:
            o_nx, _ = BatchCluster(backend="NX").fit([{"gml": g} for g in graphs], None, rule_key="gml", attribute_key=None, batch_size=None)
            b_nx, _ = BatchCluster(backend="NX").fit([{"gml": g} for g in graphs], None, rule_key="gml", attribute_key=None, batch_size=2)
            ok_nx = c13.same_partition([e["class"] for e in o_nx], want) and c13.same_partition([e["class"] for e in b_nx], want)
            msg_nx = f"{len(set(e['class'] for e in o_nx))} / {len(set(e['class'] for e in b_nx))} classes (isomorphism classes {len(set(want))})"
        except Exception as e:
            ok_nx, msg_nx = False, f"{type(e).__name__}: {e}"
        ctx.count("cluster_batches_backend_spelling")
        if not ok_nx:
            ctx.violation("cluster-depends-on-batch-size", {"backend": "NX"}, f"BatchCluster(backend='NX') one-shot / batched: {msg_nx}")
        sizes = [g.number_of_nodes() for g in graphs]
        try:
            one_n, _ = BatchCluster().fit([{"gml": g, "n": k} for g, k in zip(graphs, sizes)], None, rule_key="gml", attribute_key="n", batch_size=None)
            c1 = [e["class"] for e in one_n]
        except Exception as e:
            c1 = f"{type(e).__name__}: {e}"
        got_n, _ = BatchCluster().fit([{"gml": g, "n": k} for g, k in zip(graphs, sizes)], None, rule_key="gml", attribute_key="n", batch_size=2)
        ctx.count("cluster_batches_numeric_attribute")
        if isinstance(c1, str) or not c13.same_partition([e["class"] for e in got_n], c1) or not c13.same_partition(c1, want):
            ctx.violation("cluster-depends-on-batch-size", {"attribute": "atom count (int)", "n": len(graphs)},
                          f"numeric pre-grouping attribute: one-shot clustering gives {c1 if isinstance(c1, str) else len(set(c1))}, batch_size=2 gives {len(set(e['class'] for e in got_n))} classes")
        # with a pre-grouping attribute: present on every entry (a real invariant), or missing on some entries
        # (then it is just data: batched and one-shot clustering still have to agree with each other)
        from synkit.Graph.Feature.graph_signature import GraphSignature
        sigs = [GraphSignature(g).create_graph_signature() for g in graphs]
        for partial in (False, True):
            # (entry 0 keeps its key: GraphCluster inspects attributes[0] to decide how to normalise the values)
            drop = {i for i in range(1, len(graphs)) if partial and rng.random() < 0.3}
            if partial and not drop:
                drop = {rng.randrange(1, len(graphs))}

            def data():
                return [({"gml": g} if i in drop else {"gml": g, "sig": sg}) for i, (g, sg) in enumerate(zip(graphs, sigs))]

            one, _ = BatchCluster().fit(data(), None, rule_key="gml", attribute_key="sig", batch_size=None)
            c_one = [e["class"] for e in one]
            for bs in (1, 2, 3, 7):
                got, _ = BatchCluster().fit(data(), None, rule_key="gml", attribute_key="sig", batch_size=bs)
                ctx.count("cluster_batches_with_partial_attribute" if partial else "cluster_batches_with_attribute")
                c_got = [e["class"] for e in got]
                if not c13.same_partition(c_got, c_one) or (not partial and not c13.same_partition(c_got, want)):
                    ctx.violation("cluster-depends-on-batch-size", {"batch_size": bs, "n": len(graphs), "entries_without_attribute": sorted(drop)},
                                  f"batch_size={bs} with attribute key gives a different partition than one-shot clustering "
                                  f"({len(set(c_got))} vs {len(set(c_one))} classes; {len(drop)} entries lack the key)")


def graph_view(G):
    sp = sorted((d.get("smiles_nomap") or d.get("smiles")) for n, d in G.nodes(data=True) if d.get("kind") == "species")
    name = lambda n: (G.nodes[n].get("smiles_nomap") or G.nodes[n].get("smiles"))
    ev = []
    for n, d in G.nodes(data=True):
        if d.get("kind") == "species":
            continue
        ins = sorted(name(u) for u in G.predecessors(n))
        outs = sorted(name(v) for v in G.successors(n))
        ev.append((d.get("rule_index"), d.get("step"), tuple(ins), tuple(outs)))
    return sp, sorted(ev, key=repr)


def check_syncrn(ctx):
    from synkit.CRN.DAG.syncrn import SynCRN

    rng = ctx.rng
    seeds_pool = ["CC(=O)O", "CO", "CN", "CCBr", "CC=O", "OCCO", "CCO"]
    for _ in range(1 if ctx.quick else 6):
        seeds = rng.sample(seeds_pool, rng.randint(3, 5))
        rules = rng.sample(RULES_IMPLICIT, rng.randint(2, 4))
        kw = dict(rules=rules, repeats=2, explicit_h=False, implicit_temp=True, max_components=2)
        g0 = SynCRN(**kw).build(seeds, parallel=False)
        v0 = graph_view(g0)
        for mw in (2, 4):
            g1 = SynCRN(**kw).build(seeds, parallel=True, max_workers=mw)
            ctx.count("syncrn_compared")
            v1 = graph_view(g1)
            if v0 != v1:
                ctx.violation("syncrn-depends-on-workers", {"seeds": seeds, "rules": rules, "max_workers": mw},
                              f"parallel network expansion differs from serial: {len(v1[0])} vs {len(v0[0])} species, {len(v1[1])} vs {len(v0[1])} events")
        ctx.count("syncrn_species", len(v0[0]))
    # rules handed over as SynRule objects (they travel to the worker processes by pickling)
    from synkit.Rule.syn_rule import SynRule
    rules_s = ["[C:1]([H:3])[O:2][H:4]>>[C:1]=[O:2].[H:3][H:4]", "[C:1]=[O:2].[H:3][H:4]>>[C:1]([H:3])[O:2][H:4]"]
    seeds = ["CCO", "OCCO", "CC(O)C"]
    def build(parallel, mw):
        objs = [SynRule.from_smart(r, name=f"r{i}") for i, r in enumerate(rules_s)]
        return graph_view(SynCRN(rules=objs, repeats=2, explicit_h=False, max_components=2).build(seeds, parallel=parallel, max_workers=mw))
    try:
        ref = build(False, None)
    except Exception as e:
        ref = None
        ctx.count("syncrn_synrule_serial_raised/" + type(e).__name__)
    if ref is not None:
        for mw in ((2,) if ctx.quick else (2, 4, 8)):
            ctx.count("syncrn_rule_objects_compared")
            try:
                got = build(True, mw)
            except BaseException as e:
                if isinstance(e, (KeyboardInterrupt, SystemExit)):
                    raise
                ctx.violation("syncrn-depends-on-workers", {"rules": "SynRule objects", "max_workers": mw},
                              f"parallel network expansion with SynRule rule objects raises {type(e).__name__}: {str(e)[:120]}; the serial expansion returns {len(ref[0])} species")
                continue
            if got != ref:
                ctx.violation("syncrn-depends-on-workers", {"rules": "SynRule objects", "max_workers": mw},
                              f"parallel expansion with SynRule objects differs from serial: {len(got[0])} vs {len(ref[0])} species")


def run(ctx):
    install(ctx.seed)
    rng = ctx.rng
    corpus_subs = [x["a"] for x in RC.rxns() if x["mode"] == "implicit"][:60]
    corpus_rules = [x["rsmi"] for x in RC.rxns() if x["mode"] == "implicit" and x["cc"]][:40]
    n = 4 if ctx.quick else 40
    for t in range(n):
        if ctx.out_of_time(0.6):
            ctx.count("batches_truncated_by_budget")
            break
        if t % 2 == 0:
            entries = [rng.choice(SUBSTRATES) for _ in range(rng.randint(6, 14))]
            if rng.random() < 0.7:
                pos = rng.randrange(len(entries))
                entries[pos:pos] = rng.choice([["CC(=O)O.CO", "CC(=O)[O-].CO"], ["CC(=O)[O-].CO", "CC(=O)O.CO"], ["NCC(=O)O.CO", "[NH3+]CC(=O)[O-].CO"]])
            rules = rng.sample(RULES_IMPLICIT, rng.randint(2, 4))
            if rng.random() < 0.3:
                rules = rules + [rules[0]]
        else:
            entries = [rng.choice(corpus_subs) for _ in range(rng.randint(4, 8))]
            entries += [entries[0]]
            rules = rng.sample(corpus_rules, 3)
        cfgs = [{"cache_enabled": True}, {"cache_enabled": False}, {"cache_enabled": True, "cache_maxsize": rng.choice([0, 1, 2, 8])},
                {"cache_enabled": True, "cache_maxsize": 2, "adversarial": True, "refit": True},
                {"cache_enabled": True, "graphs": True, "refit": True}, {"invert": True}]
        k = rng.randint(3, 5)
        cfgs.append({"dedupe": False, "repeat_objs": [0] + [rng.randrange(3) for _ in range(k - 2)] + [0], "cache_enabled": rng.random() < 0.8})
        cfgs.append({"dedupe": False, "cache_enabled": True, "repeat_objs": [rng.randrange(3) for _ in range(k)], "refit": rng.random() < 0.5})
        cfgs.append({"rules_as_iterator": True, "cache_enabled": rng.random() < 0.5})
        if t % 2 == 0:
            cfgs.append({"entry_n_jobs": rng.choice([2, 4])})
            cfgs.append({"parallel_rules": True, "rule_n_jobs": 2})
        for cfg in cfgs:
            ents = list(entries)
            if rng.random() < 0.5:
                rng.shuffle(ents)
            check_batch(ctx, ents, rules, cfg, "batches of small and corpus substrates")
    # explicit-hydrogen rules (hydrogens written as atoms), default explicit_h=True
    if not ctx.out_of_time(0.7):
        ents = [rng.choice(["CC(C)=O.NC", "CC(=O)C.CN", "CCl.N", "ClC.N", "CC(C)=O.NCC", "CCCl.N"]) for _ in range(rng.randint(5, 9))]
        for cfg in ({"mode": "explicit"}, {"mode": "explicit", "cache_maxsize": 1}, {"mode": "explicit", "invert": True}):
            ctx.count("batches/explicit_mode")
            check_batch(ctx, list(ents), RULES_EXPLICIT, cfg, "explicit-hydrogen rules")
    # one long look-alike batch with the real id(): graphs are created and dropped -> address reuse pressure
    long_entries = [rng.choice(SUBSTRATES[:8]) for _ in range(150 if ctx.quick else 1500)]
    import time
    t0 = time.time()
    ctx.notes.append(f"batches done at {ctx.elapsed():.0f}s")
    check_batch(ctx, long_entries, RULES_IMPLICIT[:2], {"cache_enabled": True, "cache_maxsize": 4, "refit": True}, "long look-alike batch (real id)")
    ctx.notes.append(f"long batch {time.time() - t0:.0f}s"); t0 = time.time()
    check_validators(ctx)
    ctx.notes.append(f"validators {time.time() - t0:.0f}s"); t0 = time.time()
    check_cluster_batches(ctx)
    ctx.notes.append(f"cluster {time.time() - t0:.0f}s"); t0 = time.time()
    check_syncrn(ctx)
    ctx.notes.append(f"syncrn {time.time() - t0:.0f}s")


def replay(ctx, v):
    install(0)
    w = v["witness"]
    if "entries" in w:
        check_batch(ctx, w["entries"], w["rules"], w["cfg"], "replay")
    else:
        print(w)
        ctx.violation(v["kind"], w, "parallel-vs-serial witness: re-run the check (needs worker processes)")
