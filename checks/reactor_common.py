"""Shared reactor harness for C03, C04, C05, C11 (pruning differential) and C14.

* corpus reactions with input-decided classes (hydrogen mode, centre-complete)
* run(): one SynReactor execution, returning results + raw/pruned match counts
* a switchable wrapper around deduplicate_matches_with_anchor (contract + identity bypass)
"""
from __future__ import annotations

import itertools
from functools import lru_cache

from oracles import rdkit_rxn as R
from workloads import corpus

BYPASS = [False]          # True -> the pruning step is the identity (glue every raw match)
EXACT_ORBITS = [False]    # True -> pruning uses exact automorphism orbits of the pattern instead of the WL estimate
STATS = {"dedup_calls": 0, "dedup_dropped": 0, "last_in": 0, "last_out": 0}
FAIL = []
_installed = [False]


def install():
    """wrap deduplicate_matches_with_anchor everywhere it is bound (contract + bypass switch)."""
    if _installed[0]:
        return
    from synkit.Graph.Matcher import dedup_matches as dm
    import synkit.Synthesis.Reactor.syn_reactor  # noqa: F401
    from vmon import hook

    def mk(orig):
        def deduplicate_matches_with_anchor(matches, **kw):
            ms = list(matches)
            STATS["dedup_calls"] += 1
            STATS["last_in"] = len(ms)
            if BYPASS[0]:
                STATS["last_out"] = len(ms)
                return ms
            if EXACT_ORBITS[0] and kw.get("pattern_orbits") is not None and EXACT_ORBITS[0] is not True:
                kw = dict(kw)
                kw["pattern_orbits"], kw["pattern_anchor"] = EXACT_ORBITS[0]
            out = orig(ms, **kw)
            it = iter(ms)
            if not (isinstance(out, list) and all(any(x is y for y in it) for x in out)):
                FAIL.append({"n_in": len(ms), "n_out": len(out) if hasattr(out, "__len__") else None,
                             "input": [dict(m) for m in ms][:20], "output": [dict(m) for m in out][:20]})
            if len(out) < len(ms):
                STATS["dedup_dropped"] += 1
            STATS["last_out"] = len(out)
            return out
        return deduplicate_matches_with_anchor

    hook.wrap(dm, "deduplicate_matches_with_anchor", mk)
    _installed[0] = True


# hand-written well-formed reactions widening the corpus chemistry: intramolecular centres (reactant side of the
# centre is disconnected although it lies in one molecule), spectator species, charges that are neutralised,
# centre atoms joined by an untouched bond, several hydrogens leaving one atom
EXTRA_RXNS = [
    "[OH:1][CH2:2][CH2:3][CH2:4][C:5](=[O:6])[OH:7].[OH2:8]>>[O:1]1[CH2:2][CH2:3][CH2:4][C:5]1=[O:6].[OH2:7].[OH2:8]",
    "[Br:1][CH2:2][CH2:3][CH2:4][CH2:5][O-:6].[CH3:7][OH:8]>>[Br-:1].[CH2:2]1[CH2:3][CH2:4][CH2:5][O:6]1.[CH3:7][OH:8]",
    "[CH2:1]=[CH:2][CH2:3][CH2:4][CH2:5][CH:6]=[CH2:7].[OH2:8]>>[CH:2]1=[CH:6][CH2:5][CH2:4][CH2:3]1.[CH2:1]=[CH2:7].[OH2:8]",
    "[CH3:1][O-:2].[CH3:3][I:4]>>[CH3:1][O:2][CH3:3].[I-:4]",
    "[CH3:1][N:2]([CH3:3])[CH3:4].[CH3:5][I:6]>>[CH3:1][N+:2]([CH3:3])([CH3:4])[CH3:5].[I-:6]",
    "[Cl:1][CH2:2][CH2:3][Cl:4].[NH3:5].[NH3:6]>>[NH2:5][CH2:2][CH2:3][NH2:6].[ClH:1].[ClH:4]",
    "[CH3:1][C:2](=[O:3])[CH3:4].[NH2:5][NH2:6]>>[CH3:1][C:2](=[N:5][NH2:6])[CH3:4].[OH2:3]",
    "[CH3:1][C:2](=[O:3])[CH3:4].[N:5]([H:7])([H:8])[CH3:6]>>[CH3:1][C:2](=[N:5][CH3:6])[CH3:4].[O:3]([H:7])[H:8]",
    "[CH3:1][C:2]#[N:3].[OH2:4]>>[CH3:1][C:2](=[O:4])[NH2:3]",
    "[CH2:1]=[CH:2][CH3:3].[H:4][H:5]>>[CH2:1]([H:4])[CH:2]([H:5])[CH3:3]",
    "[CH3:1][C:2](=[O:3])[O-:4].[H+:5]>>[CH3:1][C:2](=[O:3])[O:4][H:5]",
    # aromatic rings built from / broken into open-chain atoms, and rings that persist while (de)aromatising
    "[CH3:1][N:2]=[N+:3]=[N-:4].[CH:5]#[C:6][CH3:7]>>[CH3:1][n:2]1[n:3][n:4][c:6]([CH3:7])[cH:5]1",
    "[CH3:1][C:2](=[O:3])[CH:4]([H:12])[C:5](=[O:6])[CH3:7].[N:8]([H:13])([H:14])[N:9]([H:15])[CH3:10]"
    ">>[CH3:1][c:2]1[cH:4][c:5]([CH3:7])[n:9]([CH3:10])[n:8]1.[O:3]([H:12])[H:13].[O:6]([H:14])[H:15]",
    "[CH3:1][C:2](=[O:3])[CH2:4][CH2:5][C:6](=[O:7])[CH3:8].[NH3:9]>>[CH3:1][c:2]1[cH:4][cH:5][c:6]([CH3:8])[nH:9]1.[OH2:3].[OH2:7]",
    "[CH2:1]1[CH:2]=[CH:3][NH:4][CH:5]=[CH:6]1.[O:7]=[O:8]>>[cH:1]1[cH:2][cH:3][n:4][cH:5][cH:6]1.[OH:7][OH:8]",
    # two independent hydrogen-transfer groups, one atom handing over two hydrogens (imine formation + acylation in one step)
    "[H:1][N:2]([H:3])[CH2:4][CH2:5][O:6][H:7].[CH3:8][CH:9]=[O:10].[CH3:11][C:12](=[O:13])[Cl:14]>>"
    "[CH3:8][CH:9]=[N:2][CH2:4][CH2:5][O:6][C:12](=[O:13])[CH3:11].[H:1][O:10][H:3].[Cl:14][H:7]",
    # centre keeps an explicit X-H bond and the substrate carries an unchanged bystander molecule / ion
    "[CH3:1][CH:2]=[CH2:3].[H:4][H:5].[OH2:6]>>[CH3:1][CH:2]([H:4])[CH2:3][H:5].[OH2:6]",
    "[CH3:1][NH2+:2][H:3].[Cl-:4]>>[CH3:1][NH2:2].[H+:3].[Cl-:4]",
    "[CH3:1][C:2](=[O:3])[O:4][H:5].[NH3:6].[Na+:7]>>[CH3:1][C:2](=[O:3])[O-:4].[NH3+:6][H:5].[Na+:7]",
]


@lru_cache(maxsize=None)
def rxns():
    """well-formed corpus reactions (plus EXTRA_RXNS, rid >= 10000) with classes decided from the input alone."""
    out = []
    src = list(corpus.wellformed_reactions()) + [(10000 + i, r) for i, r in enumerate(EXTRA_RXNS) if corpus.wellformed(r)]
    for rid, r in src:
        a, b = r.split(">>")
        mode = R.hmode(r)
        out.append({"rid": rid, "rsmi": r, "mode": mode, "cc": R.centre_complete(r),
                    "a": R.unmapped_canonical(a), "b": R.unmapped_canonical(b)})
    return out


def flags_for(mode, alt=False):
    if mode == "explicit":
        return {"explicit_h": not alt, "implicit_temp": False}
    if mode == "implicit":
        return {"explicit_h": False, "implicit_temp": True}
    return None


_std = [None]


def std():
    if _std[0] is None:
        from synkit.Chem.Reaction.standardize import Standardize
        _std[0] = Standardize()
    return _std[0]


def std_fit(s):
    try:
        return std().fit(s)
    except Exception:
        return None


def template_of(rsmi, kind):
    from synkit.IO.chem_converter import rsmi_to_its
    from synkit.Graph.ITS.its_decompose import get_rc

    its = rsmi_to_its(rsmi)
    return its if kind == "its" else get_rc(its)


RUN_TIMEOUT_S = [30]   # generous wall-clock watchdog per reactor execution; firing = inconclusive run, never a verdict


class RunTimeout(BaseException):
    """BaseException on purpose: broad `except Exception` blocks inside the code under test must not swallow it."""


def _alarm(signum, frame):
    raise RunTimeout()


def run(substrate, tpl, invert, strategy="all", flags=None, automorphism=False, want_its=False):
    """one reactor execution; returns dict(smarts, std, n_raw, n_pruned, its) or dict(error=...)."""
    import signal
    import threading

    use_alarm = threading.current_thread() is threading.main_thread()
    if use_alarm:
        old = signal.signal(signal.SIGALRM, _alarm)
        signal.setitimer(signal.ITIMER_REAL, RUN_TIMEOUT_S[0])
    try:
        return _run(substrate, tpl, invert, strategy, flags, automorphism, want_its)
    except RunTimeout:
        STATS["timeouts"] = STATS.get("timeouts", 0) + 1
        return {"error": "timeout", "timeout": True}
    finally:
        if use_alarm:
            signal.setitimer(signal.ITIMER_REAL, 0)
            signal.signal(signal.SIGALRM, old)


def pattern_ref_tie(G):
    """harness-side necessary condition for any symmetry pruning: after folding explicit hydrogens into counts, do two
    pattern atoms agree on (element, charge, aromatic, hcount) and on the multiset of (neighbour label, bond order)?
    This is one round of colour refinement over the documented labels - coarser than (or equal to) every orbit
    partition a correct WL-1 estimate or an exact automorphism search can return."""
    lab0, drop = {}, set()
    extra = {}
    for n, d in G.nodes(data=True):
        if d.get("element") == "H":
            heavy = [m for m in G[n] if G.nodes[m].get("element") != "H"]
            if heavy:
                drop.add(n)
                for m in heavy:
                    extra[m] = extra.get(m, 0) + 1
        elif d.get("element") == "*":
            drop.add(n)
    for n, d in G.nodes(data=True):
        if n not in drop:
            lab0[n] = (d.get("element"), d.get("charge", 0), bool(d.get("aromatic", False)), (d.get("hcount", 0) or 0) + extra.get(n, 0))
    lab1 = {}
    for n in lab0:
        nb = []
        for m in G[n]:
            if m in lab0:
                o = G[n][m].get("order")
                nb.append((repr(lab0[m]), repr(o)))
        lab1[n] = (lab0[n], tuple(sorted(nb)))
    return len(set(lab1.values())) < len(lab1)


def _run(substrate, tpl, invert, strategy="all", flags=None, automorphism=False, want_its=False):
    from synkit.Synthesis.Reactor.syn_reactor import SynReactor

    install()
    flags = flags or {}
    try:
        rx = SynReactor(substrate, tpl, invert=invert, strategy=strategy, automorphism=automorphism, **flags)
        maps = rx.mappings
        n_raw, n_pruned = STATS["last_in"], STATS["last_out"]
        STATS["runs"] = STATS.get("runs", 0) + 1
        if STATS["runs"] % 2 == 0:
            # every second execution reads the lazily cached properties in the other order (its_list / its first,
            # then smarts_list): the answer must not depend on which property the caller touches first
            _ = rx.its_list
            _ = rx.its
        smarts = list(rx.smarts_list)
        out = {"smarts": smarts, "std": {x for x in (std_fit(s) for s in smarts) if x},
               "n_raw": n_raw, "n_pruned": n_pruned, "n_maps": len(maps)}
        try:
            out["pattern_tie"] = pattern_ref_tie(rx.rule.left.raw)
        except Exception:
            out["pattern_tie"] = None
        if n_pruned < n_raw and out["pattern_tie"] is False and not BYPASS[0]:
            STATS["pruned_without_tie"] = STATS.get("pruned_without_tie", 0) + 1
            out["pruned_without_tie"] = True
        if want_its:
            out["its"] = rx.its_list
            out["rx"] = rx
        return out
    except Exception as e:  # counted by callers, never judged
        return {"error": f"{type(e).__name__}: {e}"}


def case_list(kinds=("its", "rc"), dirs=("fwd", "bwd"), strategies=("all",)):
    """deterministic own-template case list over the admissible corpus reactions."""
    out = []
    for rx in rxns():
        fl = flags_for(rx["mode"])
        if fl is None:
            continue
        for kind in kinds:
            if kind == "rc" and not rx["cc"]:
                continue
            for d in dirs:
                for s in strategies:
                    out.append((rx["rid"], kind, d, s))
    return out


def rx_by_id(rid):
    for rx in rxns():
        if rx["rid"] == rid:
            return rx
    raise KeyError(rid)


def run_case(rid, kind, d, strategy, rsmi=None, bypass=False, automorphism=False, want_its=False, alt_flags=False):
    rx = rx_by_id(rid)
    rsmi = rsmi or rx["rsmi"]
    tpl = template_of(rsmi, kind)
    sub = rx["a"] if d == "fwd" else rx["b"]
    BYPASS[0] = bypass
    try:
        return run(sub, tpl, invert=(d == "bwd"), strategy=strategy, flags=flags_for(rx["mode"], alt_flags),
                   automorphism=automorphism, want_its=want_its)
    finally:
        BYPASS[0] = False


# --------------------------------------------------------------------------- #
# pruning differential (C11; classifier reused by C05)
# --------------------------------------------------------------------------- #
KF_PRUNE = "synreactor-pattern-orbit-pruning"


def pruned_without_symmetry(ctx, out, wit):
    """matches were merged as symmetry-equivalent although no two pattern atoms look alike under the documented labels
    (element, charge, aromatic, hydrogen count, bonded neighbours): the orbits handed to the pruning step are wrong."""
    if out.get("pattern_tie") is not None and out["n_pruned"] < out["n_raw"]:
        ctx.count("pruning_symmetry_reference_checked")
    if out.get("pruned_without_tie"):
        ctx.violation("pruned-without-symmetry", dict(wit),
                      f"{out['n_raw']} raw matches were pruned to {out['n_pruned']} although all pattern atoms are pairwise distinguishable "
                      "by element, charge, aromaticity, hydrogen count and their bonded neighbours")


def pruning_case(ctx, rid, kind, d, strategy, automorphism=False, rsmi=None, tag="corpus own-template"):
    wit = {"template_rid": rid, "kind": kind, "dir": d, "strategy": strategy, "automorphism": automorphism}
    if rsmi:
        wit["rsmi"] = rsmi
    a = run_case(rid, kind, d, strategy, rsmi=rsmi, automorphism=automorphism)
    b = run_case(rid, kind, d, strategy, rsmi=rsmi, automorphism=automorphism, bypass=True)
    ctx.count("pruning_differential_runs")
    if "error" in a or "error" in b:
        ctx.count("pruning_runs_with_exception")
        return None
    if a["n_pruned"] < a["n_raw"]:
        ctx.count("pruning_removed_matches")
    pruned_without_symmetry(ctx, a, wit)
    diff = a["std"] != b["std"]
    if diff:
        lost = sorted(b["std"] - a["std"])
        extra = sorted(a["std"] - b["std"])
        # classifier: a pure loss (pruned subset of unpruned) is by construction caused by the pruning step
        # of SynReactor.mappings (pattern-orbit signature); it is a *known* finding only for the corpus
        # witnesses pinned in known_findings.json (witness_id), anything else is reported as new.
        finding = KF_PRUNE if not extra else None
        ctx.violation("pruning-changes-results", {**wit, "lost": lost[:3], "extra": extra[:3]},
                      f"pruned result set differs from gluing every raw match: lost {len(lost)}, extra {len(extra)} "
                      f"(raw matches {a['n_raw']} -> {a['n_pruned']})", finding=finding,
                      witness_id=f"{rid}/{kind}/{d}" if rsmi is None else None)
    ctx.case(("prune", rid, kind, d, strategy, automorphism, rsmi), nontrivial=a["n_raw"] >= 2,
             sample={"space": tag, **wit, "raw_matches": a["n_raw"], "kept": a["n_pruned"], "results": len(a["std"])}
             if ctx.rng.random() < 0.01 else None)
    return diff


SYNTH_PRUNE = [
    ("[CH2:1]=[CH2:2].[BrH:3]>>[CH3:1][CH2:2][Br:3]", ["CC=C.Br", "C=CC.Br", "C=C.Br", "CC(C)=C.Br", "CC=CC.Br"]),
    ("[CH2:1]=[CH2:2].[H:3][O:4][H:5]>>[CH2:1]([H:3])[CH2:2][O:4][H:5]", ["CC=C.O", "C=CC.O", "C=C.O"]),
    ("[CH2:1]=[CH:2][CH:3]=[CH2:4].[CH2:5]=[CH2:6]>>[CH2:1]1[CH:2]=[CH:3][CH2:4][CH2:5][CH2:6]1",
     ["C=CC=CC.C=CC", "CC(=C)C=C.C=CC(=O)OC", "C=CC=C.C=C"]),
    ("[CH2:1]=[CH2:2].[CH2:3]=[CH2:4]>>[CH2:1]=[CH2:3].[CH2:2]=[CH2:4]", ["CC=C.C=CCC", "C=C.C=CC"]),
    ("[CH3:1][C:2](=[O:3])[OH:4].[CH3:5][OH:6]>>[CH3:1][C:2](=[O:3])[O:6][CH3:5].[OH2:4]", ["CC(=O)O.OCCO", "OC(=O)CC(=O)O.CO"]),
    ("[CH3:1][Cl:2].[NH3:3]>>[CH3:1][NH2:3].[ClH:2]", ["ClCCCl.N", "CCl.NCCN"]),
    # pattern atoms that differ only in their hydrogen count, on a non-anchor component
    ("[C:1]([H:2])=[C:3].[C:4](=[O:5])[Cl:6]>>[C:1]([C:4]=[O:5])=[C:3].[H:2][Cl:6]", ["CC=CCC.CC(=O)Cl", "CC=CC.CC(=O)Cl", "CC=C(C)C.CC(=O)Cl"]),
    ("[CH:1]([H:2])=[CH:3].[CH3:7][C:4](=[O:5])[Cl:6]>>[CH:1]([C:4]([CH3:7])=[O:5])=[CH:3].[H:2][Cl:6]", ["CC=CCC.CC(=O)Cl"]),
    ("[C:1][C:2][H:3].[Cl:4][Cl:5]>>[C:1][C:2][Cl:4].[H:3][Cl:5]", ["CCC.ClCl", "CCCC.ClCl"]),
    ("[N:1]([H:2])[N:3].[C:4](=[O:5])[Cl:6]>>[N:1]([C:4]=[O:5])[N:3].[H:2][Cl:6]", ["CNN(C)C.CC(=O)Cl", "CNNC.CC(=O)Cl"]),
    # connected, symmetric left-hand side with an unsymmetrical outcome (single-component patterns are anchored as a whole)
    ("[CH2:1]1[CH2:2][Br+:3]1>>[CH2+:1][CH2:2][Br:3]", ["CC1C[Br+]1", "CCC1C[Br+]1"]),
    ("[CH2:1]=[CH2:2]>>[CH2+:1][CH2-:2]", ["CC=C", "CC=CCC", "C=CC=O"]),
    ("[CH2:1]1[CH2:2][CH2:3]1>>[CH2+:1][CH2:2][CH2-:3]", ["CC1CC1", "CC1CC1C"]),
    # four components on both sides whose candidate molecules overlap pairwise (halogen exchange round)
    ("[C:1][F:2].[C:3][Cl:4].[C:5][Br:6].[C:7][I:8]>>[C:1][Cl:4].[C:3][Br:6].[C:5][I:8].[C:7][F:2]",
     ["CF.ClCCI.ClCCBr.BrCCI", "ClCCBr.CF.BrCCI.ClCCI", "BrCCI.ClCCBr.ClCCI.CF"]),
    # two free components that can sit in one symmetric molecule in different relative positions
    ("[C:1](=[O:2])[Cl:3].[O:4][H:5].[N:6]>>[C:1](=[O:2])[O:4].[Cl-:3].[N+:6][H:5]", ["CC(=O)Cl.OCC(N)C(N)CO", "CC(=O)Cl.NC(CO)C(N)CO"]),
    ("[C:1][H:2].[Cl:3][Cl:4]>>[C:1][Cl:3].[H:2][Cl:4]", ["C1CCCC1.C1CCCCC1.ClCl", "C1CCCCC1.C1CCCC1.ClCl"]),
    # many cross-component combinations (2 esters x 2 x 2 alcohol sites): exercises the embedding cap
    ("[C:1][O:2].[O:3][H:4]>>[C:1][O:3].[O:2][H:4]", ["COC(=O)CC(=O)OCC.CC(O)CO", "COC(C)=O.OCCO"]),
]


def pruning_pair(ctx, tpl_rsmi, sub, wid, automorphism=False):
    """pruned vs unpruned for an explicit (template string, substrate) pair; loss-free on the unchanged tree."""
    from synkit.IO.chem_converter import rsmi_to_its
    flags = flags_for(R.hmode(tpl_rsmi))
    if flags is None:
        return
    res = {}
    for bypass in (False, True):
        BYPASS[0] = bypass
        try:
            res[bypass] = run(sub, rsmi_to_its(tpl_rsmi), False, strategy="all", flags=flags, automorphism=automorphism)
        finally:
            BYPASS[0] = False
    a, b = res[False], res[True]
    ctx.count("pruning_differential_runs")
    if "error" in a or "error" in b:
        ctx.count("pruning_runs_with_exception")
        return
    if a["n_pruned"] < a["n_raw"]:
        ctx.count("pruning_removed_matches")
    pruned_without_symmetry(ctx, a, {"template": tpl_rsmi, "substrate": sub, "automorphism": automorphism})
    if a["std"] != b["std"]:
        lost, extra = sorted(b["std"] - a["std"]), sorted(a["std"] - b["std"])
        ctx.violation("pruning-changes-results", {"template": tpl_rsmi, "substrate": sub, "automorphism": automorphism, "lost": lost[:3], "extra": extra[:3]},
                      f"pruned result set differs from gluing every raw match: lost {len(lost)}, extra {len(extra)} (raw matches {a['n_raw']} -> {a['n_pruned']})",
                      finding=KF_PRUNE if not extra else None, witness_id=wid)
    ctx.case(("prune-synth", tpl_rsmi, sub, automorphism), nontrivial=a["n_raw"] >= 2,
             sample={"space": "synthetic symmetric-site templates", "template": tpl_rsmi, "substrate": sub, "raw_matches": a["n_raw"], "kept": a["n_pruned"]}
             if ctx.rng.random() < 0.05 else None)


def pruning_differential(ctx, budget_frac=1.0):
    install()
    k = 0
    for ti, (tpl, subs) in enumerate(SYNTH_PRUNE):
        for si, sub in enumerate(subs):
            k += 1
            if ctx.mine(k):
                pruning_pair(ctx, tpl, sub, f"synth|{tpl}|{sub}|wl-orbits", automorphism=False)
                pruning_pair(ctx, tpl, sub, f"synth|{tpl}|{sub}|exact-orbits", automorphism=True)
    cases = case_list(kinds=("rc", "its"), strategies=("all", "comp", "bt"))
    step = 9 if ctx.quick else 1
    for i, (rid, kind, d, s) in enumerate(cases):
        if not ctx.mine(i):
            continue
        if ctx.quick and (i // ctx.nshards) % step != ctx.seed % step and rid < 10000:
            continue
        if ctx.out_of_time(budget_frac):
            ctx.count("pruning_truncated_by_budget")
            break
        if s == "bt" and (i // ctx.nshards) % 3 != ctx.seed % 3:
            continue  # bt is comp-or-all: swept for a third of the cases per seed
        pruning_case(ctx, rid, kind, d, s, automorphism=False)
        pruning_case(ctx, rid, kind, d, s, automorphism=True)


def replay_pruning(ctx, w):
    install()
    if "template" in w:
        return pruning_pair(ctx, w["template"], w["substrate"], None, automorphism=bool(w.get("automorphism")))
    pruning_case(ctx, w["template_rid"], w["kind"], w["dir"], w["strategy"], automorphism=bool(w.get("automorphism")),
                 rsmi=w.get("rsmi"), tag="replay")
