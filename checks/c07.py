"""C07 — isomorphism verdicts and embeddings are correct; pre-filters never change them; no
answer depends on earlier queries made on the same graph objects.

Oracle: independent back-tracking enumeration of bijections / injections (oracles.brute).
Monitors: verdict contracts on GraphMatcherEngine.isomorphic / get_mappings, SubgraphMatch.
subgraph_isomorphism / is_subgraph, graph_morphism.graph_isomorphism / subgraph_isomorphism,
filter on/off differentials, relabelling relations, and a query-history monitor in which several
engines with different attribute selections share graph objects."""
from __future__ import annotations

import networkx as nx

from oracles import brute as B
from workloads import graphs as WG

RULE = (
    "one case = one ordered pair of labelled graphs queried through every entry point, filter flag and "
    "containment mode (plus relabelled copies), or one query history on shared graph objects; distinct = "
    "distinct pair / history; non-trivial = both graphs have >=2 nodes and share the node-label multiset, or "
    "the smaller is contained in the larger"
)
REQUIRED = ["iso_checked", "iso_true", "iso_false_same_size", "mappings_checked", "mappings_strictly_smaller_pattern_found",
            "boolean_subgraph_checked", "filter_differentials", "history_queries", "history_cache_shared_hits",
            "hcount_asymmetric_pairs", "graph_morphism_checked", "quick_prefilter_checked", "mono_not_induced_pairs",
            "pairs_with_mixed_numeric_label_types", "custom_comparator_matters", "pairs_with_doubly_charged_atoms"]
ASSUMPTIONS = [
    "isomorphic(a, b) with hcount annotations: first argument is the host (a.hcount >= b.hcount) for equal sizes, as documented",
    "get_mappings: every returned map must be a valid label-preserving monomorphism; non-empty is demanded when the pattern is induced-contained",
    "in-place mutation of a graph between queries is outside the engine's documented contract and is not exercised",
]
SHARDS = {"quick": 8, "thorough": 16}
BUDGET_S = {"quick": 60, "thorough": 600}


def mk_ok(node_attrs, edge_attrs, hc=True):
    def node_ok(p, h):
        if any(p.get(k) != h.get(k) for k in node_attrs):
            return False
        return (h.get("hcount", 0) >= p.get("hcount", 0)) if hc else True

    def edge_ok(p, h):
        return all(p.get(k) == h.get(k) for k in edge_attrs)

    return node_ok, edge_ok


def sm_node_ok(p, h):
    return p.get("element", "*") == h.get("element", "*") and p.get("charge", 0) == h.get("charge", 0)


def sm_edge_ok(p, h):
    return p.get("order") == h.get("order")


def fz(m):
    return frozenset(m.items())


def valid_mono(P, H, m, node_ok, edge_ok):
    if set(m.keys()) != set(P.nodes) or len(set(m.values())) != len(m) or not set(m.values()) <= set(H.nodes):
        return False
    if not all(node_ok(P.nodes[p], H.nodes[m[p]]) for p in P.nodes):
        return False
    for u, v, d in P.edges(data=True):
        if not H.has_edge(m[u], m[v]) or not edge_ok(d, H[m[u]][m[v]]):
            return False
    return True


def clear_cache():
    from synkit.Graph.Matcher.graph_matcher import GraphMatcherEngine
    try:
        GraphMatcherEngine._wl_cache.clear()
    except Exception:
        pass


def check_pair(ctx, A, Bg, tag, key, light=False):
    """A, Bg: labelled graphs (any sizes)."""
    from synkit.Graph.Matcher.graph_matcher import GraphMatcherEngine
    from synkit.Graph.Matcher.subgraph_matcher import SubgraphMatch, SubgraphSearchEngine
    from synkit.Graph.Matcher import graph_morphism as GM

    rng = ctx.rng
    NA, EA = ["element", "charge"], ["order"]
    node_ok, edge_ok = mk_ok(NA, EA)
    wit = {"g1": WG.describe(A), "g2": WG.describe(Bg)}
    a0, b0 = WG.gdigest(A), WG.gdigest(Bg)

    def bad(kind, msg, **kw):
        ctx.violation(kind, {**wit, **kw}, msg)

    # ---------------- isomorphic ---------------- #
    same = A.number_of_nodes() == Bg.number_of_nodes()
    exp_iso = same and bool(B.isomorphisms(Bg, A, node_ok, edge_ok, limit=1))  # A is host
    exp_iso_rev = same and bool(B.isomorphisms(A, Bg, node_ok, edge_ok, limit=1))
    if exp_iso != exp_iso_rev:
        ctx.count("hcount_asymmetric_pairs")
    res = {}
    for wl in (False, True):
        clear_cache()
        e = GraphMatcherEngine(node_attrs=NA, edge_attrs=EA, wl1_filter=wl)
        res[wl] = e.isomorphic(A, Bg)
        ctx.count("iso_checked")
        if res[wl] != exp_iso:
            bad("isomorphic", f"isomorphic(g1,g2) with wl1_filter={wl} = {res[wl]}, a label-preserving bijection (g1 as host) {'exists' if exp_iso else 'does not exist'}", wl1_filter=wl)
        r2 = e.isomorphic(Bg, A)
        if r2 != exp_iso_rev:
            bad("isomorphic", f"isomorphic(g2,g1) with wl1_filter={wl} = {r2}, expected {exp_iso_rev}", wl1_filter=wl, swapped=True)
    ctx.count("filter_differentials")
    if res[False] != res[True]:
        bad("wl-filter-changes-verdict", f"wl1_filter flips isomorphic: off={res[False]} on={res[True]}")
    ctx.count("iso_true" if exp_iso else ("iso_false_same_size" if same else "iso_false_other_size"))
    # relabelling invariance
    A2, _ = WG.scramble(A, rng)
    B2, _ = WG.scramble(Bg, rng)
    clear_cache()
    e = GraphMatcherEngine(node_attrs=NA, edge_attrs=EA, wl1_filter=rng.random() < 0.5)
    if e.isomorphic(A2, B2) != exp_iso:
        bad("isomorphic-relabel", f"verdict changes under relabelling: expected {exp_iso}", g1r=WG.describe(A2), g2r=WG.describe(B2))
    # graph_morphism.graph_isomorphism (no hcount rule; element, charge, order)
    exp_plain = same and bool(B.isomorphisms(Bg, A, sm_node_ok, sm_edge_ok, limit=1))
    got = GM.graph_isomorphism(A, Bg, use_defaults=True)
    ctx.count("graph_morphism_checked")
    if got != exp_plain:
        bad("graph_isomorphism", f"graph_isomorphism(use_defaults=True)={got}, expected {exp_plain}")
    # ---------------- embeddings: host = larger ---------------- #
    host, pat = (A, Bg) if A.number_of_nodes() >= Bg.number_of_nodes() else (Bg, A)
    ind = B.embeddings(pat, host, node_ok, edge_ok, induced=True)
    mono_exists = bool(ind) or bool(B.embeddings(pat, host, node_ok, edge_ok, induced=False, limit=1))
    if mono_exists and not ind:
        ctx.count("mono_not_induced_pairs")
    outs = {}
    for wl in (False, True):
        for mm in ((1, None) if light else (1, 3, None)):
            clear_cache()
            e = GraphMatcherEngine(node_attrs=NA, edge_attrs=EA, wl1_filter=wl, max_mappings=mm)
            r = e.get_mappings(host, pat)
            ctx.count("mappings_checked")
            outs[(wl, mm)] = r
            if mm is not None and len(r) > mm:
                bad("get_mappings", f"{len(r)} mappings with max_mappings={mm}", wl1_filter=wl, max_mappings=mm)
            for m in r:
                if not valid_mono(pat, host, m, node_ok, edge_ok):
                    bad("get_mappings-invalid", f"returned map {m} is not a label-preserving pattern->host embedding", wl1_filter=wl, max_mappings=mm)
                    break
            if ind and not r:
                bad("get_mappings-missed", f"no embedding returned although the pattern is (induced-)contained, e.g. {ind[0]}", wl1_filter=wl, max_mappings=mm)
            if r and pat.number_of_nodes() < host.number_of_nodes():
                ctx.count("mappings_strictly_smaller_pattern_found")
            if len({fz(m) for m in r}) != len(r):
                bad("get_mappings", "duplicate mappings", wl1_filter=wl, max_mappings=mm)
    for mm in ((1, None) if light else (1, 3, None)):
        a, b = outs[(False, mm)], outs[(True, mm)]
        ctx.count("filter_differentials")
        same_res = ({fz(m) for m in a} == {fz(m) for m in b}) if mm is None else (bool(a) == bool(b))
        if not same_res:
            bad("wl-filter-changes-mappings", f"wl1_filter changes get_mappings (max_mappings={mm}): off={len(a)} on={len(b)}", max_mappings=mm)
    # ---------------- boolean sub-graph tests ---------------- #
    exp_b = {"induced": bool(B.embeddings(pat, host, sm_node_ok, sm_edge_ok, induced=True, limit=1)),
             "monomorphism": bool(B.embeddings(pat, host, sm_node_ok, sm_edge_ok, induced=False, limit=1))}
    if not same:
        exp_rev = {"induced": False, "monomorphism": False}  # larger child can never be contained
    for ct in ("induced", "monomorphism"):
        for uf in (False, True):
            for name, fn in (("SubgraphMatch.subgraph_isomorphism", lambda: SubgraphMatch.subgraph_isomorphism(pat, host, use_filter=uf, check_type=ct)),
                             ("SubgraphMatch.is_subgraph", lambda: SubgraphMatch.is_subgraph(pat, host, use_filter=uf, check_type=ct)),
                             ("graph_morphism.subgraph_isomorphism", lambda: GM.subgraph_isomorphism(pat, host, use_filter=uf, check_type=ct))):
                got = fn()
                ctx.count("boolean_subgraph_checked")
                if got != exp_b[ct]:
                    bad("boolean-subgraph", f"{name}(check_type={ct}, use_filter={uf}) = {got}, definition gives {exp_b[ct]}", check_type=ct, use_filter=uf, fn=name)
            if not same:
                got = SubgraphMatch.subgraph_isomorphism(host, pat, use_filter=uf, check_type=ct)
                if got:
                    bad("boolean-subgraph", f"larger graph reported contained in the smaller one ({ct}, use_filter={uf})", check_type=ct, use_filter=uf, swapped=True)
        ctx.count("filter_differentials")
    # ---------------- caller-supplied comparators (weaker than equality) with the cheap filter on/off ---------------- #
    if not light:
        tol = lambda a, b: a is not None and b is not None and abs(float(a) - float(b)) <= 1.0   # noqa: E731
        tol_edge = lambda p, h: tol(p.get("order"), h.get("order"))   # noqa: E731
        for ct in ("induced", "monomorphism"):
            exp_t = bool(B.embeddings(pat, host, sm_node_ok, tol_edge, induced=(ct == "induced"), limit=1))
            for uf in (False, True):
                for name, fn in (("SubgraphMatch.subgraph_isomorphism", SubgraphMatch.subgraph_isomorphism), ("graph_morphism.subgraph_isomorphism", GM.subgraph_isomorphism)):
                    got = fn(pat, host, use_filter=uf, check_type=ct, edge_comparator=tol)
                    ctx.count("custom_comparator_checked")
                    if exp_t and not exp_b[ct]:
                        ctx.count("custom_comparator_matters")
                    if got != exp_t:
                        bad("boolean-subgraph", f"{name}(check_type={ct}, use_filter={uf}, edge_comparator=|a-b|<=1) = {got}, definition under that comparator gives {exp_t}",
                            check_type=ct, use_filter=uf, fn=name, comparator="tolerant")
    # ---------------- quick pre-filter of the search engine ---------------- #
    pf = SubgraphSearchEngine._quick_pre_filter(host, pat, NA, 5000)
    ctx.count("quick_prefilter_checked")
    if pf and mono_exists:
        bad("quick-prefilter", "_quick_pre_filter prunes a pair that has a monomorphism")
    if WG.gdigest(A) != a0 or WG.gdigest(Bg) != b0:
        bad("input-mutated", "a query modified its input graph")
    la = sorted((d.get("element"), d.get("charge")) for _, d in A.nodes(data=True))
    lb = sorted((d.get("element"), d.get("charge")) for _, d in Bg.nodes(data=True))
    nontrivial = min(A.number_of_nodes(), Bg.number_of_nodes()) >= 2 and (la == lb or mono_exists)
    ctx.case(key, nontrivial=nontrivial,
             sample={"space": tag, **wit, "isomorphic": exp_iso, "induced_embeddings": len(ind)}
             if (ctx.evaluations < 2 or rng.random() < 0.001) else None)


ENGINE_CFGS = [(("element", "charge"), ("order",)), (("element",), ("order",)), (("charge", "element"), ("order",)),
               ((), ()), (("element", "charge", "hcount"), ("order",)), (("element",), ())]


def check_history(ctx, graphs, tag):
    """several engines (different attribute selections, wl filter on) share graph objects; every
    answer is compared with the brute-force answer for that engine's own selection."""
    from synkit.Graph.Matcher.graph_matcher import GraphMatcherEngine

    rng = ctx.rng
    clear_cache()
    engines = []
    for na, ea in rng.sample(ENGINE_CFGS, rng.randint(2, len(ENGINE_CFGS))):
        engines.append((na, ea, GraphMatcherEngine(node_attrs=list(na), edge_attrs=list(ea), wl1_filter=True, max_mappings=None)))
    log = []
    seen_graph = set()
    for step in range(rng.randint(5, 30)):
        na, ea, e = rng.choice(engines)
        i, j = rng.randrange(len(graphs)), rng.randrange(len(graphs))
        g1, g2 = graphs[i], graphs[j]
        node_ok, edge_ok = mk_ok(na, ea)
        op = rng.choice(["iso", "map"])
        if i in seen_graph or j in seen_graph:
            ctx.count("history_cache_shared_hits")
        seen_graph.update((i, j))
        ctx.count("history_queries")
        if op == "iso":
            got = e.isomorphic(g1, g2)
            exp = g1.number_of_nodes() == g2.number_of_nodes() and bool(B.isomorphisms(g2, g1, node_ok, edge_ok, limit=1))
            log.append([op, i, j, list(na), list(ea), got])
            if got != exp:
                ctx.violation("history-isomorphic", {"graphs": [WG.describe(g) for g in graphs], "log": log},
                              f"after {step} earlier queries: isomorphic(g{i},g{j}) with node_attrs={na} = {got}, expected {exp}")
                return
        else:
            host, pat = (g1, g2) if g1.number_of_nodes() >= g2.number_of_nodes() else (g2, g1)
            got = e.get_mappings(host, pat)
            ind = B.embeddings(pat, host, node_ok, edge_ok, induced=True)
            log.append([op, i, j, list(na), list(ea), len(got)])
            okv = all(valid_mono(pat, host, m, node_ok, edge_ok) for m in got)
            if not okv or (ind and not got):
                ctx.violation("history-mappings", {"graphs": [WG.describe(g) for g in graphs], "log": log},
                              f"after {step} earlier queries: get_mappings with node_attrs={na} returned {len(got)} maps (valid={okv}), induced embeddings exist: {len(ind)}")
                return
    ctx.case(("hist", log), nontrivial=True,
             sample={"space": tag, "n_graphs": len(graphs), "queries": log[:6]} if rng.random() < 0.02 else None)


def one_edit(rng, G):
    H = G.copy()
    k = rng.random()
    nodes = list(H.nodes)
    if k < 0.25 and H.number_of_edges():
        u, v = rng.choice(list(H.edges))
        H[u][v]["order"] = 3 - H[u][v]["order"] if H[u][v]["order"] in (1, 2) else 1
    elif k < 0.5:
        v = rng.choice(nodes)
        H.nodes[v]["charge"] = H.nodes[v].get("charge", 0) + rng.choice([-1, 1])
    elif k < 0.7:
        v = rng.choice(nodes)
        H.nodes[v]["hcount"] = max(0, H.nodes[v].get("hcount", 0) + rng.choice([-1, 1]))
    elif k < 0.85 and H.number_of_edges():
        H.remove_edge(*rng.choice(list(H.edges)))
    else:
        v = rng.choice(nodes)
        H.nodes[v]["element"] = "N" if H.nodes[v]["element"] != "N" else "C"
    return H


def retype(G, rng):
    """equal labels written with another numeric type (1 vs 1.0, as GML-read vs RDKit-derived graphs do)."""
    H = G.copy()
    for _, _, d in H.edges(data=True):
        o = d.get("order")
        if isinstance(o, (int, float)) and float(o).is_integer():
            d["order"] = int(o) if rng.random() < 0.5 else float(o)
    for _, d in H.nodes(data=True):
        c = d.get("charge")
        if isinstance(c, int) and rng.random() < 0.3:
            d["charge"] = float(c)
    return H


def run(ctx):
    rng = ctx.rng
    nmax = 3 if ctx.quick else 4
    reps = [r for n in range(1, nmax + 1) for r in WG.classes(n, WG.RED_NODE, [1, 2])]
    space = f"all ordered pairs of class representatives <= {nmax} nodes (2 elements x orders{{1,2}}, hcount 0)"
    idx = 0
    for i, ra in enumerate(reps):
        for j, rb in enumerate(reps):
            idx += 1
            if not ctx.mine(idx):
                continue
            light = (not ctx.quick) and (len(ra[0]) == 4 and len(rb[0]) == 4) and idx % 4 != 0
            A, _ = WG.scramble(WG.to_nx(ra), rng)
            Bg, _ = WG.scramble(WG.to_nx(rb), rng)
            check_pair(ctx, A, Bg, space, ("cls", i, j), light=light)
    ctx.exhaustive[space] = True
    if not ctx.quick:
        full = [r for n in range(1, 4) for r in WG.classes(n)]
        sp2 = "all ordered pairs of class representatives <= 3 nodes, full alphabet (2 elements x hcount{0,1} x orders{1,2})"
        for i, ra in enumerate(full):
            for j, rb in enumerate(full):
                idx += 1
                if ctx.mine(idx):
                    A, _ = WG.scramble(WG.to_nx(ra), rng)
                    Bg, _ = WG.scramble(WG.to_nx(rb), rng)
                    check_pair(ctx, A, Bg, sp2, ("clsfull", i, j), light=True)
        ctx.exhaustive[sp2] = True
    # random pairs: relabelled copies, one-edit neighbours, planted sub-patterns, hcount/charge variants
    n = 700 if ctx.quick else 8000
    for t in range(n):
        if ctx.out_of_time(0.7):
            ctx.count("random_truncated_by_budget")
            break
        A = WG.random_mol(rng, rng.randint(2, 8), components=rng.choice([1, 1, 1, 2]), p_charge=0.2, hmax=2)
        k = rng.random()
        if k < 0.25:
            Bg, _ = WG.scramble(A, rng)
        elif k < 0.55:
            Bg, _ = WG.scramble(one_edit(rng, A), rng)
        elif k < 0.8:
            Bg, _ = WG.scramble(WG.planted_pattern(rng, A, rng.randint(1, max(1, A.number_of_nodes() - 1))), rng)
        else:
            Bg = WG.random_mol(rng, rng.randint(2, 8), p_charge=0.2)
        if t % 3 == 0:
            A, Bg = retype(A, rng), retype(Bg, rng)
            ctx.count("pairs_with_mixed_numeric_label_types")
        if t % 4 == 1:
            # charges of magnitude 2 next to magnitude 1 on look-alike neighbours (the relabelled copy keeps them)
            def recharge(g):
                h = g.copy()
                for _, d_ in h.nodes(data=True):
                    if rng.random() < 0.45:
                        d_["charge"] = rng.choice([-2, -1, -1, -2, 1, 2])
                return h
            A = recharge(A)
            Bg = WG.scramble(A, rng)[0] if rng.random() < 0.6 else recharge(Bg)
            ctx.count("pairs_with_doubly_charged_atoms")
        check_pair(ctx, A, Bg, "random pairs", ("rnd", repr(WG.describe(A)), repr(WG.describe(Bg))), light=(t % 2 == 0))
        ctx.count("random_pairs")
    # query histories on shared objects
    n = 250 if ctx.quick else 3000
    for t in range(n):
        if ctx.out_of_time():
            ctx.count("random_truncated_by_budget")
            break
        base = WG.random_mol(rng, rng.randint(2, 6), p_charge=0.3, hmax=1)
        graphs = [base]
        for _ in range(rng.randint(1, 4)):
            g = rng.choice(graphs)
            c = rng.random()
            if c < 0.4:
                graphs.append(WG.scramble(g, rng)[0])
            elif c < 0.8:
                graphs.append(WG.scramble(one_edit(rng, g), rng)[0])
            else:
                graphs.append(WG.scramble(WG.planted_pattern(rng, g, max(1, g.number_of_nodes() - 1)), rng)[0])
        check_history(ctx, graphs, "query histories on shared graph objects")


def replay(ctx, v):
    w = v["witness"]
    if "graphs" in w:
        graphs = [WG.from_desc(d) for d in w["graphs"]]
        from synkit.Graph.Matcher.graph_matcher import GraphMatcherEngine
        clear_cache()
        eng = {}
        for op, i, j, na, ea, got in w["log"]:
            e = eng.setdefault((tuple(na), tuple(ea)), GraphMatcherEngine(node_attrs=na, edge_attrs=ea, wl1_filter=True, max_mappings=None))
            node_ok, edge_ok = mk_ok(na, ea)
            g1, g2 = graphs[i], graphs[j]
            if op == "iso":
                r = e.isomorphic(g1, g2)
                exp = g1.number_of_nodes() == g2.number_of_nodes() and bool(B.isomorphisms(g2, g1, node_ok, edge_ok, limit=1))
                if r != exp:
                    ctx.violation("history-isomorphic", w, f"replayed: isomorphic(g{i},g{j}) node_attrs={na} = {r}, expected {exp}")
            else:
                host, pat = (g1, g2) if g1.number_of_nodes() >= g2.number_of_nodes() else (g2, g1)
                r = e.get_mappings(host, pat)
                ind = B.embeddings(pat, host, node_ok, edge_ok, induced=True)
                if (ind and not r) or not all(valid_mono(pat, host, m, node_ok, edge_ok) for m in r):
                    ctx.violation("history-mappings", w, f"replayed: get_mappings node_attrs={na} -> {len(r)} maps, induced embeddings {len(ind)}")
        return
    check_pair(ctx, WG.from_desc(w["g1"]), WG.from_desc(w["g2"]), "replay", ("replay",))
