"""C01 — ITS encoding of a mapped reaction is lossless and invertible.

Monitors: (1) an always-on construction contract wrapped around ITSConstruction.construct (fires for
every ITS built anywhere: rsmi_to_its, smart_to_gml, SynReactor, ...): union of atoms and bonds,
(before, after) order pairs, their difference, typesGH = the two sides' attribute tuples, inputs
unmodified; (2) decomposition post-condition: its_decompose(ITS(G, H)) == (G, H); (3) string round
trip its_to_rsmi(rsmi_to_its(r)) judged by an RDKit-only reference reader (isomorphic reference ITS,
same unmapped sides)."""
from __future__ import annotations

import networkx as nx

from oracles import rdkit_rxn as R
from workloads import corpus
from workloads import graphs as WG

RULE = (
    "one case = one balanced mapped reaction (corpus reaction or a renumbering / re-rooting / fragment shuffle / "
    "reversal of it) or one synthetic reactant/product graph pair on a shared node set; distinct = distinct input; "
    "non-trivial = >=1 bond whose order differs between the sides"
)
REQUIRED = ["construct_contract_evals", "decompose_checked", "string_roundtrip_checked", "variants/renumber",
            "variants/rewrite", "variants/reversed", "synthetic_pairs", "bond_only_on_one_side", "explicit_h_reactions",
            "charge_changing_reactions", "aromatic_order_changes", "history_reduced_attrs_first", "legacy_converter_checked",
            "generated/spectator_h2", "generated/spectator_bare_h", "generated/element_starting_with_H", "generated/spectator_explicit_h",
            "generated/spectator_wildcard_atom", "hydrogen_count_only_reactions"]
ASSUMPTIONS = [
    "reference reader: RDKit MolFromSmiles(sanitize=False)+SanitizeMol (keeps mapped hydrogens), canonical non-isomeric SMILES",
    "stereochemistry is not carried by the graph layer and is not compared",
    "construction contract covers the default attribute set (element, aromatic, hcount, charge, neighbors)",
]
SHARDS = {"quick": 8, "thorough": 16}
BUDGET_S = {"quick": 60, "thorough": 600}

_st = {"evals": 0}
_fail = []
_installed = [False]
NODE_ATTRS = ["element", "aromatic", "hcount", "charge", "neighbors"]
DEFAULTS = {"element": "*", "charge": 0, "hcount": 0, "aromatic": False, "neighbors": ["", ""]}


def construct_contract(G, H, its, kw, g0, h0):
    if kw.get("node_attrs") not in (None, NODE_ATTRS):
        return None
    dflt = dict(DEFAULTS)
    dflt.update(kw.get("attributes_defaults") or {})
    if WG.gdigest(G) != g0 or WG.gdigest(H) != h0:
        return "construction modified an input graph"
    if set(its.nodes) != set(G.nodes) | set(H.nodes):
        return f"ITS atoms {sorted(its.nodes)} are not the union {sorted(set(G.nodes) | set(H.nodes))}"
    want_e = {frozenset(e) for e in G.edges} | {frozenset(e) for e in H.edges}
    got_e = {frozenset(e) for e in its.edges}
    if got_e != want_e:
        return f"ITS bonds differ from the union: missing {sorted(map(sorted, want_e - got_e))[:3]} extra {sorted(map(sorted, got_e - want_e))[:3]}"
    for u, v, d in its.edges(data=True):
        og = G[u][v].get("order", 0.0) if G.has_edge(u, v) else 0.0
        oh = H[u][v].get("order", 0.0) if H.has_edge(u, v) else 0.0
        if tuple(d.get("order", ())) != (og, oh):
            return f"bond {u}-{v}: order pair {d.get('order')} != (before {og}, after {oh})"
        so = og - oh
        if kw.get("ignore_aromaticity") and abs(so) < 1:
            so = 0
        if d.get("standard_order") != so:
            return f"bond {u}-{v}: standard_order {d.get('standard_order')} != {so}"
    for n, d in its.nodes(data=True):
        gt = tuple((G.nodes[n].get(a, dflt[a]) if n in G else dflt[a]) for a in NODE_ATTRS)
        ht = tuple((H.nodes[n].get(a, dflt[a]) if n in H else dflt[a]) for a in NODE_ATTRS)
        if d.get("typesGH") != (gt, ht):
            return f"atom {n}: typesGH {d.get('typesGH')} != ({gt}, {ht})"
    return None


def install():
    if _installed[0]:
        return
    from synkit.Graph.ITS.its_construction import ITSConstruction
    from vmon import hook

    def mk(orig):
        def construct(G, H, **kw):
            g0, h0 = WG.gdigest(G), WG.gdigest(H)
            its = orig(G, H, **kw)
            _st["evals"] += 1
            try:
                p = construct_contract(G, H, its, kw, g0, h0)
            except Exception as e:  # never disturb the code under observation
                p = None
            if p:
                _fail.append(p)
            return its
        return construct

    hook.wrap_method(ITSConstruction, "construct", mk)
    _installed[0] = True


def flush(ctx, wit):
    ctx.count("construct_contract_evals", _st["evals"])
    _st["evals"] = 0
    for p in _fail[:2]:
        ctx.violation("construction-contract", wit, p)
    del _fail[:]


def graphs_equal(A, B_):
    if set(A.nodes) != set(B_.nodes):
        return f"atoms {sorted(set(A.nodes) ^ set(B_.nodes))[:5]} differ"
    for n in A.nodes:
        for k in ("element", "aromatic", "hcount", "charge"):
            if A.nodes[n].get(k) != B_.nodes[n].get(k):
                return f"atom {n}: {k} {B_.nodes[n].get(k)!r} != original {A.nodes[n].get(k)!r}"
    ea = {frozenset(e): A.edges[e].get("order") for e in A.edges}
    eb = {frozenset(e): B_.edges[e].get("order") for e in B_.edges}
    if ea != eb:
        diff = [(sorted(k), ea.get(k), eb.get(k)) for k in set(ea) | set(eb) if ea.get(k) != eb.get(k)]
        return f"bonds differ (bond, original, decomposed): {diff[:3]}"
    return None


def check_reaction(ctx, r, kind, tag):
    from synkit.IO.chem_converter import rsmi_to_graph, rsmi_to_its, its_to_rsmi
    from synkit.Graph.ITS.its_construction import ITSConstruction
    from synkit.Graph.ITS.its_decompose import its_decompose

    wit = {"rsmi": r, "variant": kind}
    ctx.count("variants/" + kind)
    gap = R.representation_gap(r)
    if gap:
        # recorded limits of the graph layer (no isotope label, numeric bond order only): only the string round trip is judged
        ctx.count("reactions_with_representation_gap")
        try:
            r2 = its_to_rsmi(rsmi_to_its(r))
        except Exception as e:
            r2 = None
        a, b = r.split(">>")
        ok = isinstance(r2, str) and ">>" in r2 and R.fragments_canonical(r2.split(">>")[0]) == R.fragments_canonical(a) \
            and R.fragments_canonical(r2.split(">>")[1]) == R.fragments_canonical(b)
        if not ok:
            ctx.violation("roundtrip-sides", {**wit, "out": r2}, f"round trip changed the unmapped sides: {r2}", finding=gap)
        ctx.case(("rx", r), nontrivial=True, sample={"space": tag, "variant": kind, "rsmi": r, "roundtrip": r2})
        return
    if ctx.rng.random() < 0.3:
        # history: the same text converted earlier with a reduced attribute selection must not influence the
        # default conversion that follows
        from synkit.IO.chem_converter import smiles_to_graph
        rsmi_to_graph(r, node_attrs=["element", "charge", "atom_map"])
        smiles_to_graph(r.split(">>")[0], node_attrs=["element", "atom_map"], edge_attrs=[])
        ctx.count("history_reduced_attrs_first")
    G, H = rsmi_to_graph(r)
    if G is None or H is None:
        ctx.violation("parse", wit, "rsmi_to_graph returned None for a well-formed reaction")
        return
    # reference tables vs the parsed graphs (atoms keyed by map number)
    a, b = r.split(">>")
    for side, smi, g in (("reactant", a, G), ("product", b, H)):
        ref = R.side_tables(smi)
        if ref is None:
            continue
        atoms, bonds = ref
        if set(g.nodes) != set(atoms):
            ctx.violation("parse-atoms", wit, f"{side} graph nodes {sorted(g.nodes)[:8]}... are not the atom maps of the input")
            return
        for k, (el, hc, ch, ar) in atoms.items():
            d = g.nodes[k]
            if (d.get("element"), d.get("hcount"), d.get("charge"), d.get("aromatic")) != (el, hc, ch, ar):
                ctx.violation("parse-atoms", wit, f"{side} atom {k}: graph has {(d.get('element'), d.get('hcount'), d.get('charge'), d.get('aromatic'))}, reference reader {(el, hc, ch, ar)}")
                return
        gb = {frozenset(e): g.edges[e].get("order") for e in g.edges}
        if gb != bonds:
            ctx.violation("parse-bonds", wit, f"{side} bonds differ from the reference reader")
            return
    # second public entry point of the same converter (legacy classmethod), all legal flag pairs
    from synkit.IO.mol_to_graph import MolToGraph
    for side, smi, g in (("reactant", a, G), ("product", b, H)):
        mol = R.parse(smi)
        for drop, useidx in ((False, True), (True, True)):
            for lw in (False, True):
                lg = MolToGraph.mol_to_graph(mol, drop_non_aam=drop, light_weight=lw, use_index_as_atom_map=useidx)
                ctx.count("legacy_converter_checked")
                keys = ("element", "charge", "hcount", "aromatic") if not lw else ("element", "charge")
                if set(lg.nodes) != set(g.nodes) or any(lg.nodes[n].get(k) != g.nodes[n].get(k) for n in g.nodes for k in keys if k in lg.nodes[n]) \
                        or {frozenset(e): lg.edges[e].get("order") for e in lg.edges} != {frozenset(e): g.edges[e].get("order") for e in g.edges}:
                    ctx.violation("legacy-converter", {**wit, "side": side, "drop_non_aam": drop, "use_index_as_atom_map": useidx, "light_weight": lw},
                                  f"MolToGraph.mol_to_graph(drop_non_aam={drop}, light_weight={lw}, use_index_as_atom_map={useidx}) differs from the graph used for the {side} side")
                    break
    its = ITSConstruction().ITSGraph(G, H)
    for flag in (False, True):
        its_f = its if not flag else ITSConstruction().ITSGraph(G, H, ignore_aromaticity=True)
        g2, h2 = its_decompose(its_f)
        ctx.count("decompose_checked")
        for name, orig, dec in (("reactant", G, g2), ("product", H, h2)):
            p = graphs_equal(orig, dec)
            if p:
                ctx.violation("decompose", {**wit, "ignore_aromaticity": flag}, f"its_decompose (ITS built with ignore_aromaticity={flag}) does not return the original {name} graph: {p}")
    # the public writer applied to the caller's own graphs: same answer as through the ITS, and the graphs stay as they were
    from synkit.IO.chem_converter import graph_to_rsmi
    dG, dH = WG.gdigest(G), WG.gdigest(H)
    try:
        direct = graph_to_rsmi(G, H)
    except Exception as e:
        direct = f"{type(e).__name__}"
    ctx.count("graph_to_rsmi_on_caller_graphs")
    if WG.gdigest(G) != dG or WG.gdigest(H) != dH:
        ctx.violation("input-mutated", {**wit, "call": "graph_to_rsmi(G, H)"},
                      "graph_to_rsmi modified the reactant/product graphs it was given (a second use of the same graphs sees different molecules)")
        G, H = rsmi_to_graph(r)
    its2 = rsmi_to_its(r)
    if WG.gdigest(its2) != WG.gdigest(its):
        # same function of the same input through the documented route
        if set(its2.nodes) != set(its.nodes) or {frozenset(e) for e in its2.edges} != {frozenset(e) for e in its.edges}:
            ctx.violation("rsmi_to_its", wit, "rsmi_to_its differs from ITSGraph(rsmi_to_graph(r))")
    # string round trip
    r2 = its_to_rsmi(its2)
    ctx.count("string_roundtrip_checked")
    ref1 = R.reference_its(r)
    if r2 is None:
        ctx.violation("roundtrip-none", wit, "its_to_rsmi returned None for the ITS of a well-formed reaction")
    elif ref1 is not None:
        a2, b2 = r2.split(">>")
        if R.fragments_canonical(a2) != R.fragments_canonical(a) or R.fragments_canonical(b2) != R.fragments_canonical(b):
            ctx.violation("roundtrip-sides", {**wit, "out": r2}, f"round trip changed the unmapped sides: {r2}")
        else:
            ref2 = R.reference_its(r2)
            if ref2 is None:
                ctx.violation("roundtrip-maps", {**wit, "out": r2}, f"round trip output is not a fully mapped balanced reaction: {r2}")
            else:
                # hydrogens may be written implicitly on the way back: compare in implicit-H normal form
                f1 = implicit_ref(ref1)
                f2 = implicit_ref(ref2)
                if not R.its_iso(f1, f2):
                    ctx.violation("roundtrip-mapping", {**wit, "out": r2}, f"round trip is not atom-map-equivalent to the input: {r2}")
    flush(ctx, wit)
    # workload features
    A, Bt = R.side_tables(a), R.side_tables(b)
    feats = []
    if A and Bt:
        ch = [e for e in set(A[1]) | set(Bt[1]) if A[1].get(e, 0) != Bt[1].get(e, 0)]
        if any(A[0][k][0] == "H" for k in A[0]):
            ctx.count("explicit_h_reactions")
        if any(A[0][k][2] != Bt[0][k][2] for k in A[0]):
            ctx.count("charge_changing_reactions")
        if any(abs(A[1].get(e, 0) - Bt[1].get(e, 0)) == 0.5 for e in ch):
            ctx.count("aromatic_order_changes")
        if any((e in A[1]) != (e in Bt[1]) for e in ch):
            ctx.count("bond_only_on_one_side")
        nontrivial = bool(ch)
    else:
        nontrivial = False
    ctx.case(("rx", r), nontrivial=nontrivial,
             sample={"space": tag, "variant": kind, "rsmi": r, "roundtrip": r2} if (ctx.evaluations < 2 or ctx.rng.random() < 0.003) else None)


def implicit_ref(g):
    """fold H atoms attached to one heavy atom into that atom's H counts on both sides (reference ITS)."""
    out = nx.Graph()
    fold = {}
    for n, d in g.nodes(data=True):
        if d["lab"][0][0] == "H":
            nb = list(g[n])
            heavy = [x for x in nb if g.nodes[x]["lab"][0][0] != "H"]
            if heavy and len(nb) == len(heavy):
                fold[n] = nb
    add = {}
    for h, nbs in fold.items():
        for x in nbs:
            o = g[h][x]["o"]
            a = add.setdefault(x, [0, 0])
            a[0] += 1 if o[0] else 0
            a[1] += 1 if o[1] else 0
    for n, d in g.nodes(data=True):
        if n in fold:
            continue
        la, lb = d["lab"]
        extra = add.get(n, [0, 0])
        out.add_node(n, lab=((la[0], la[1] + extra[0]) + tuple(la[2:]), (lb[0], lb[1] + extra[1]) + tuple(lb[2:])))
    for u, v, d in g.edges(data=True):
        if u in fold or v in fold:
            continue
        out.add_edge(u, v, o=d["o"])
    return out


def synthetic_pair(rng):
    n = rng.randint(2, 7)
    G = WG.random_mol(rng, n, elements=("C", "N", "O"), orders=(1, 1, 1.5, 2, 3), p_charge=0.2, hmax=3)
    H = G.copy()
    nodes = list(G.nodes)
    for _ in range(rng.randint(1, 3)):
        k = rng.random()
        if k < 0.35 and H.number_of_edges():
            H.remove_edge(*rng.choice(list(H.edges)))
        elif k < 0.7 and n >= 2:
            u, v = rng.sample(nodes, 2)
            if H.has_edge(u, v):
                H[u][v]["order"] = rng.choice([1, 1.5, 2, 3])
            else:
                H.add_edge(u, v, order=rng.choice([1, 1.5, 2]))
        else:
            v = rng.choice(nodes)
            H.nodes[v]["hcount"] = max(0, H.nodes[v]["hcount"] + rng.choice([-1, 1]))
            H.nodes[v]["charge"] = H.nodes[v]["charge"] + rng.choice([0, 1, -1])
    for g in (G, H):
        for _, _, d in g.edges(data=True):
            d.pop("standard_order", None)
        for v in g.nodes:
            g.nodes[v]["neighbors"] = sorted(g.nodes[x]["element"] for x in g[v])
            g.nodes[v]["aromatic"] = any(g[v][x]["order"] == 1.5 for x in g[v])
    # independent insertion orders / orientations of the same two graphs
    G2, _ = WG.scramble(G, rng, ids=list(G.nodes))
    H2, _ = WG.scramble(H, rng, ids=list(H.nodes))
    return G2, H2


def check_synthetic(ctx, G, H, tag):
    from synkit.Graph.ITS.its_construction import ITSConstruction
    from synkit.Graph.ITS.its_decompose import its_decompose

    wit = {"G": WG.describe(G), "H": WG.describe(H)}
    ctx.count("synthetic_pairs")
    for kw in ({}, {"balance_its": True}, {"store": True}, {"ignore_aromaticity": True}):
        its = ITSConstruction().ITSGraph(G, H, **kw)
        g2, h2 = its_decompose(its)
        ctx.count("decompose_checked")
        for name, orig, dec in (("reactant", G, g2), ("product", H, h2)):
            p = graphs_equal(orig, dec)
            if p:
                ctx.violation("decompose", {**wit, "kw": kw}, f"its_decompose does not return the original {name} graph: {p}")
    if any((G.has_edge(u, v)) != (H.has_edge(u, v)) for u, v in set(G.edges) | set(H.edges)):
        ctx.count("bond_only_on_one_side")
    flush(ctx, wit)
    changed = any(G.edges[e].get("order") != (H.edges[e].get("order") if H.has_edge(*e) else None) for e in G.edges) or H.number_of_edges() != G.number_of_edges()
    ctx.case(("syn", WG.describe(G), WG.describe(H)), nontrivial=changed,
             sample={"space": tag, **wit} if ctx.rng.random() < 0.002 else None)


# no bond between mapped atoms changes and no charge changes: only hydrogen counts move (radical hydrogen abstraction)
HAT_RXNS = [
    "[CH4:1].[Cl:2]>>[CH3:1].[ClH:2]",
    "[CH3:1][OH:2].[CH3:3]>>[CH3:1][O:2].[CH4:3]",
    "[CH3:1][SH:2].[OH:3]>>[CH3:1][S:2].[OH2:3]",
    "[CH3:1][CH3:2].[Br:3]>>[CH3:1][CH2:2].[BrH:3]",
    "[CH3:1][CH:2]=[O:3].[OH:4]>>[CH3:1][C:2]=[O:3].[OH2:4]",
]
GAP_RXNS = [
    "[Pd:1].[P:2]([CH3:3])([CH3:4])[CH3:5]>>[Pd:1]<-[P:2]([CH3:3])([CH3:4])[CH3:5]",
    "[Pt:1].[CH3:2][S:3][CH3:4]>>[CH3:2][S:3]([CH3:4])->[Pt:1]",
    "[13CH3:1][Cl:2].[OH-:3]>>[13CH3:1][OH:3].[Cl-:2]",
    "[CH3:1][C:2](=[O:3])[18OH:4].[CH3:5][OH:6]>>[CH3:1][C:2](=[O:3])[O:6][CH3:5].[18OH2:4]",
    "[2H:1][O:2][2H:3].[CH3:4][O-:5]>>[2H:1][O-:2].[CH3:4][O:5][2H:3]",
]


def run(ctx):
    install()
    rng = ctx.rng
    wf = corpus.wellformed_reactions()
    nvar = 2 if ctx.quick else 5
    for i, (rid, r) in enumerate(wf):
        if not ctx.mine(i):
            continue
        if ctx.out_of_time(0.8):
            ctx.count("corpus_truncated_by_budget")
            break
        check_reaction(ctx, r, "identity", "corpus")
        for _ in range(nvar):
            check_reaction(ctx, corpus.renumber(r, rng), "renumber", "corpus variants")
        w = corpus.rewrite(r, rng)
        if w:
            check_reaction(ctx, w, "rewrite", "corpus variants")
            check_reaction(ctx, corpus.renumber(w, rng), "rewrite", "corpus variants")
        check_reaction(ctx, corpus.shuffle_fragments(r, rng), "fragments", "corpus variants")
        check_reaction(ctx, corpus.reverse(r), "reversed", "corpus variants")
    # generated reactions with explicit mapped hydrogens on the changing bonds, a wide element alphabet and spectators
    for t in range(120 if ctx.quick else 3000):
        if ctx.out_of_time(0.85):
            ctx.count("generated_truncated_by_budget")
            break
        r, tags = corpus.explicit_h_reaction(rng)
        for tg in tags:
            ctx.count("generated/" + tg)
        check_reaction(ctx, r, "generated", "generated explicit-hydrogen reactions")
        check_reaction(ctx, corpus.shuffle_fragments(corpus.renumber(r, rng), rng), "generated", "generated explicit-hydrogen reactions")
    for i, r in enumerate(HAT_RXNS):
        if ctx.mine(i):
            ctx.count("hydrogen_count_only_reactions")
            check_reaction(ctx, r, "identity", "hydrogen-atom transfers written with implicit hydrogens")
            check_reaction(ctx, corpus.renumber(r, rng), "renumber", "hydrogen-atom transfers written with implicit hydrogens")
            check_reaction(ctx, corpus.reverse(r), "reversed", "hydrogen-atom transfers written with implicit hydrogens")
    for i, r in enumerate(GAP_RXNS):
        if ctx.mine(i):
            check_reaction(ctx, r, "identity", "isotope-labelled / dative-bond reactions")
            check_reaction(ctx, corpus.renumber(r, rng), "renumber", "isotope-labelled / dative-bond reactions")
    n = 500 if ctx.quick else 20000
    for t in range(n):
        if ctx.out_of_time():
            ctx.count("synthetic_truncated_by_budget")
            break
        G, H = synthetic_pair(rng)
        check_synthetic(ctx, G, H, "synthetic reactant/product pairs on a shared node set (<=7 atoms)")
    if not ctx.quick and ctx.shard == 0:
        from vmon import suite
        suite.run_under(ctx, "c01")  # the repository's own tests with this monitor installed


def replay(ctx, v):
    install()
    w = v["witness"]
    if "rsmi" in w:
        check_reaction(ctx, w["rsmi"], w.get("variant", "identity"), "replay")
    elif "G" in w:
        G, H = WG.from_desc(w["G"]), WG.from_desc(w["H"])
        for g in (G, H):
            for _, _, d in g.edges(data=True):
                d.pop("standard_order", None)
        check_synthetic(ctx, G, H, "replay")
