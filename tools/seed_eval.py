#!/venv/bin/python
"""Confirm a seeded defect and run checks against it, in a scratch worktree.

usage: tools/seed_eval.py <src_dir with patch.diff, demo.py, notes.md> <name> <prop> [--tier quick] [--checks C06,C07] [--no-suite]
 1. demo.py passes (exit 0) on unmodified HEAD, fails (exit 1) with the patch
 2. the repository's test-suite still passes with the patch (581 passed)
 3. ./check <id> on the patched worktree -> expected exit 1 (VIOLATION)
Writes /verif/seeded/<name>/{patch.diff,demo.py,notes.md,meta.json}. Worktree is removed."""
import argparse
import json
import os
import re
import shutil
import subprocess
import sys
import tempfile

VERIF = os.path.dirname(os.path.dirname(os.path.abspath(__file__)))
PY = "/venv/bin/python"


def sh(cmd, **kw):
    return subprocess.run(cmd, stdout=subprocess.PIPE, stderr=subprocess.STDOUT, text=True, **kw)


def main():
    ap = argparse.ArgumentParser()
    ap.add_argument("src")
    ap.add_argument("name")
    ap.add_argument("prop")
    ap.add_argument("--tier", default="quick")
    ap.add_argument("--checks")
    ap.add_argument("--no-suite", action="store_true")
    ap.add_argument("--seed", default="0")
    a = ap.parse_args()
    a.src = os.path.abspath(a.src)
    checks = (a.checks or a.prop).split(",")
    wt = tempfile.mkdtemp(prefix="vseed.", dir="/tmp")
    meta = {"property": a.prop, "name": a.name}
    try:
        assert sh(["git", "-C", "/repo", "worktree", "add", "-q", "--detach", wt, "HEAD"]).returncode == 0
        env = dict(os.environ, PYTHONPATH=wt, PYTHONDONTWRITEBYTECODE="1")
        demo = os.path.join(a.src, "demo.py")
        r0 = sh([PY, demo], env=env, cwd=wt, timeout=1800)
        meta["demo_clean_rc"] = r0.returncode
        ap_ = sh(["git", "-C", wt, "apply", os.path.join(a.src, "patch.diff")])
        if ap_.returncode != 0:
            print("patch does not apply:", ap_.stdout)
            meta["applies"] = False
            return 3
        r1 = sh([PY, demo], env=env, cwd=wt, timeout=1800)
        meta["demo_patched_rc"] = r1.returncode
        meta["demo_patched_tail"] = r1.stdout[-600:]
        print(f"demo: clean rc={r0.returncode} patched rc={r1.returncode}")
        if not a.no_suite:
            t = sh([PY, "-m", "pytest", "-q", "-p", "no:cacheprovider", "--timeout=900", "-n", "8", "Test/"],
                   env=env, cwd=wt, timeout=3600)
            last = [l for l in t.stdout.strip().splitlines() if "passed" in l or "failed" in l or "error" in l][-1:]
            meta["suite"] = last[0] if last else t.stdout[-300:]
            print("suite:", meta["suite"])
        meta["checks"] = {}
        for c in checks:
            env2 = dict(os.environ, SYNKIT_SRC=wt, VERIF_EVIDENCE_DIR=os.path.join(wt, ".ev"),
                        VERIF_REPLAY_DIR=os.path.join(wt, ".rp"), VERIF_SEED=a.seed)
            r = sh([os.path.join(VERIF, "check"), c, "--tier", a.tier], env=env2, timeout=6 * 3600)
            lines = r.stdout.strip().splitlines()
            viol = [l for l in lines if l.startswith("VIOLATION")]
            kinds = sorted(set(re.findall(r"kind=(\S+)", r.stdout)))
            meta["checks"][c] = {"tier": a.tier, "rc": r.returncode, "violation_lines": len(viol),
                                 "kinds": kinds, "summary": lines[-1] if lines else ""}
            print(f"check {c} ({a.tier}): rc={r.returncode} kinds={kinds}\n   {lines[-1] if lines else ''}")
            for l in lines:
                if l.startswith("  kind="):
                    print("   ", l[:260])
                    break
    finally:
        sh(["git", "-C", "/repo", "worktree", "remove", "--force", wt])
        shutil.rmtree(wt, ignore_errors=True)
    out = os.path.join(VERIF, "seeded", a.name)
    os.makedirs(out, exist_ok=True)
    for f in ("patch.diff", "demo.py", "notes.md"):
        if os.path.exists(os.path.join(a.src, f)) and os.path.abspath(os.path.join(a.src, f)) != os.path.abspath(os.path.join(out, f)):
            shutil.copy(os.path.join(a.src, f), os.path.join(out, f))
    old = {}
    mp = os.path.join(out, "meta.json")
    if os.path.exists(mp):
        old = json.load(open(mp))
        oc = old.get("checks", {})
        oc.update(meta.get("checks", {}))
        meta["checks"] = oc
        for k in ("suite", "needs", "what"):
            if k in old and k not in meta:
                meta[k] = old[k]
    meta["confirmed"] = bool(meta.get("demo_clean_rc") == 0 and meta.get("demo_patched_rc") not in (0, None)
                             and ("suite" not in meta or "581 passed" in meta["suite"]))
    meta["detected_by"] = sorted(c for c, v in meta["checks"].items() if v["rc"] == 1)
    meta["ran"] = f"tools/seed_eval.py {a.src} {a.name} {a.prop} --tier {a.tier}"
    json.dump(meta, open(mp, "w"), indent=1)
    print("confirmed:", meta["confirmed"], "detected_by:", meta["detected_by"])
    return 0


if __name__ == "__main__":
    sys.exit(main())
