#!/bin/bash
# re-confirm every seeded defect (demo clean/patched, full suite with the patch) and re-run the detecting checks
cd "$(dirname "$0")/.."
for d in seeded/*/; do
  n=$(basename $d); p=${n%%_*}
  extra=""
  [ -f $d/meta.json ] && extra=$(/venv/bin/python -c "import json;m=json.load(open('$d/meta.json'));print(','.join(sorted(set([m['property']]+m.get('detected_by',[])))))")
  tools/seed_eval.py $d $n $p --checks ${extra:-$p} 2>&1 | grep -v conda | sed "s/^/[$n] /"
done
