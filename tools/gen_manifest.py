#!/venv/bin/python
"""Regenerates /verif/MANIFEST.json from the table below + which checks/cXX.py exist.
Run:  /venv/bin/python tools/gen_manifest.py   (validates against the schema when
jsonschema is importable, e.g. under python3-vt)."""
import json
import os
import sys

VERIF = os.path.dirname(os.path.dirname(os.path.abspath(__file__)))

TABLE = {
    # id: (technique, level text, level note, design ref)
    "C01": ("construction/decomposition contracts on ITSConstruction, its_decompose, rsmi<->ITS round trips vs an RDKit-only reference reader",
            "contracts evaluated on every monitored call over the well-formed corpus, its variants (renumbering, re-rooting, fragment shuffles, reversal) and synthetic G/H pairs",
            "trusted: RDKit parsing/canonical SMILES, networkx VF2 for the reference-ITS isomorphism", "3/C01"),
    "C02": ("contracts on get_rc / RadiusExpand.extract_k vs independent changed-bond scan and BFS balls",
            "post-conditions decided by an independent re-computation for every corpus and synthetic ITS, radii 0..3, and renumbering relation",
            "trusted: networkx VF2 for isomorphism of centres", "3/C02"),
    "C03": ("class-level monitors on SynReactor.its_list/smarts_list; change-graph oracle on the ITS level + RDKit-only balance oracle",
            "every glued ITS and every rendered reaction of every reactor run is checked against substrate identity, conservation and template change graph",
            "trusted: RDKit, networkx VF2; preconditions decided from the inputs only", "3/C03"),
    "C04": ("regeneration monitor: own template applied forwards/backwards must contain the standardised target",
            "all admissible well-formed corpus reactions x variants x strategies x template kinds",
            "trusted: Standardize.fit as prescribed by the property; precondition classes decided from the input", "3/C04"),
    "C05": ("offline relational checker over recorded result sets (renumbering, rewriting, repeat, strategy lattice) with differential classifier",
            "metamorphic relations over recorded executions of the real reactor",
            "trusted: variant generators are chemistry-preserving (sanity-checked per variant)", "3/C05"),
    "C06": ("brute-force monomorphism oracle on SubgraphSearchEngine.find_subgraph_mappings (all strategies, limits, thresholds)",
            "exhaustive small spaces up to isomorphism + random molecule-like graphs; result sets compared as sets with the enumerated definition",
            "trusted: the brute-force enumerator (permutation based, cross-checked against VF2 on self-test)", "3/C06"),
    "C07": ("brute-force bijection/injection oracle + filter on/off differential + query-history monitor on shared graph objects",
            "verdicts, embeddings, filter invariance and history independence decided against enumerated definitions",
            "trusted: brute-force enumerators", "3/C07"),
    "C08": ("faithfulness/soundness/invariance contracts on GraphCanonicaliser, NautyCanonicalizer, CanonicalGraph, SynGraph, SynRule under all node permutations",
            "every permutation of every small class representative + random/symmetric graphs; signature groups checked pairwise by VF2/brute force",
            "trusted: networkx VF2 with full-attribute match, brute force on small sizes", "3/C08"),
    "C09": ("metamorphic + reference-ITS monitors on CanonRSMI, Standardize, AAMValidator, BalanceReactionCheck",
            "corpus reactions x variants; adversarial transpositions; unbalanced variants; independent element/charge counts",
            "trusted: RDKit-only reference reader; distinguishability precondition computed in the harness", "3/C09"),
    "C10": ("round-trip contracts on SMILES/graph/H/GML converters with RDKit canonical SMILES and an independent GML mini-parser",
            "all corpus molecules + vendored list, all corpus reactions core/full",
            "trusted: RDKit canonical SMILES; regex GML reader written in the harness", "3/C10"),
    "C11": ("brute-force automorphism group oracle; sub-list contract on dedup; pruned-vs-unpruned differential re-execution of SynReactor",
            "exact counts/orbits on all small classes and random graphs; pruning differential on corpus pairs",
            "trusted: brute-force automorphism enumeration", "3/C11"),
    "C12": ("validity contract + brute-force maximum common induced subgraph oracle on both MCSMatcher implementations",
            "all pairs of small class representatives + random planted pairs",
            "trusted: brute-force MCIS", "3/C12"),
    "C13": ("partition oracle (independent isomorphism classes) over list orders, batch sizes and arrival orders",
            "clusters compared with independently computed classes for each permuted multiset of corpus centres with near misses",
            "trusted: networkx VF2 on (element, charge, order) cross-checked by brute force on small centres", "3/C13"),
    "C14": ("differential monitoring: batch/parallel/cached execution vs serial single-item execution; cache-coherence monitor with adversarial id()",
            "per-entry equality for every batch composition/worker count/cache size tried; every cache hit re-executed",
            "trusted: SynReactor on a single substrate as the reference", "3/C14"),
    "C15": ("lock-step reference model over operation histories + icontract class invariant after every public method",
            "exhaustive op sequences to a depth bound + long random histories; full observable state compared after each op",
            "trusted: the 150-line dict model (oracles/crn_model.py)", "3/C15"),
    "C16": ("export contracts + round-trip monitors on bipartite / string / species-graph views",
            "exhaustive small networks + random networks with catalysts, repeats, sources/sinks, multi-digit coefficients",
            "trusted: the plain-Python network model", "3/C16"),
    "C17": ("exact rational linear algebra + certified positivity decisions (z3 over Q, certificates re-verified in Fractions) vs stoich functions",
            "rank, kernels, conservativity and consistency compared with exact answers on exhaustive small + random networks",
            "trusted: Fraction arithmetic; z3 only proposes certificates", "3/C17"),
    "C18": ("isomorphism/invariance contracts on CRNCanonicalizer and brute-force automorphisms; _refine stability post-condition; adversarial id()",
            "exhaustive small networks under all species permutations + random renamings/reorderings, both views, stoichiometry on/off",
            "trusted: networkx VF2 on selected keys, brute-force on small views", "3/C18"),
    "C19": ("definition-level oracle for complexes, linkage classes, weak reversibility, deficiency with exact rank",
            "exhaustive small + random networks + textbook values",
            "trusted: plain-Python oracle with Fraction rank", "3/C19"),
    "C20": ("brute-force siphon/trap enumeration; icontract pre/post on PetriNet.enabled/fire; explicit-state realizability oracle + certificate replay",
            "exhaustive small networks x all subsets; random flows with bounded reachability",
            "trusted: plain-Python definitions and integer replay", "3/C20"),
}


def main():
    props = [json.loads(l) for l in open(os.path.join(VERIF, "properties.jsonl"))]
    checks, na = [], []
    for p in props:
        pid = p["id"]
        if os.path.exists(os.path.join(VERIF, "checks", pid.lower() + ".py")):
            tech, text, note, ref = TABLE[pid]
            checks.append({
                "property_id": pid,
                "quick_cmd": f"./check {pid} --tier quick",
                "thorough_cmd": f"./check {pid} --tier thorough",
                "evidence_file": f"/verif/evidence/{pid}.json",
                "replay_cmd_template": f"./check {pid} --replay {{path}}",
                "engine": "vmon",
                "level_claimed": {
                    "category": "exploration",
                    "text": "runtime monitoring: " + text + "; verdict = held on the monitored executions listed in the evidence file",
                    "design_ref": "DESIGN.md section " + ref,
                },
                "level_note": note + "; only executions actually produced are decided",
                "technique": "runtime monitoring: " + tech,
            })
        else:
            na.append({"property_id": pid, "reason": "check not built yet in this session (planned as runtime monitor, see DESIGN.md section 3)"})
    m = {
        "version": 1,
        "setup_cmd": "./setup.sh",
        "hooks": {
            "guard": "SYNKIT_VERIF",
            "enable": "no source hooks: monitors are attached from the harness (icontract / attribute wrapping / sys.monitoring) in shard processes started with SYNKIT_VERIF=1 and PYTHONPATH=/repo:/verif:/verif/.deps",
            "baseline_off_cmd": "cd /repo && /venv/bin/python -m pytest -ra -q -p no:cacheprovider --timeout=900 --continue-on-collection-errors",
            "source_commits": [],
            "add_only": True,
        },
        "engines": [{
            "name": "vmon",
            "path": "/verif/vmon",
            "serves_properties": [c["property_id"] for c in checks],
            "kind_free_text": "runtime monitoring harness: sharded subprocess workloads, contracts on real functions, reference-model and differential monitors, offline checkers, known-findings matching, evidence writer",
        }],
        "checks": checks,
        "not_applicable": na,
        "notes": "All checks rebuild nothing: synkit is imported from /repo's working tree (PYTHONPATH first). Exit 0 held / 1 VIOLATION / 2 inconclusive. Known findings: /verif/known_findings.json.",
    }
    with open(os.path.join(VERIF, "MANIFEST.json"), "w") as fh:
        json.dump(m, fh, indent=1)
        fh.write("\n")
    try:
        import jsonschema
        jsonschema.validate(m, json.load(open("/root/.vp/MANIFEST.schema.json")))
        print("manifest valid;", len(checks), "checks;", len(na), "not claimed yet")
    except ImportError:
        print("manifest written (jsonschema not importable here)")


if __name__ == "__main__":
    main()
