#!/venv/bin/python
"""adds the 'what' / 'needs' fields (what the break is, what it needs in order to manifest) to seeded/*/meta.json"""
import json, os
V = os.path.dirname(os.path.dirname(os.path.abspath(__file__)))
N = {
 "C01_m1": ("its_decompose copies edges with standard_order==0 into both sides with the reactant order", "an ITS built with ignore_aromaticity=True and a bond switching between aromatic and single/double"),
 "C01_m2": ("implicit_hydrogen decrements a parent atom once instead of once per preserved hydrogen", "explicit mapped hydrogens with >=2 reaction-centre hydrogens on the same heavy atom"),
 "C02_m1": ("reaction-centre test uses round(standard_order) != 0", "a bond whose order changes by exactly 0.5 (aromatisation)"),
 "C02_m2": ("radius-k neighbourhood walk is a LIFO worklist with a shared visited set", "k >= 2 and a ring (or two centre components) so that an atom is first reached along a longer path"),
 "C03_m1": ("gluing a rule-formed bond onto an existing host bond drops the host's order", "a match where two atoms the template connects are already bonded in the substrate (monomorphic match)"),
 "C03_m2": ("duplicate (donor, acceptor) hydrogen migrations collapse to one explicit H", "explicit_h=True and a template moving >=2 hydrogens between the same pair of atoms"),
 "C04_m1": ("glued product charge is `template charge or host charge`", "a centre atom whose charge goes from non-zero to 0 in the direction applied"),
 "C04_m2": ("whole-host search uses induced sub-graph isomorphisms instead of monomorphisms", "a centre template whose centre atoms are joined by a bond the reaction leaves untouched"),
 "C05_m1": ("AutoEst.anchor_component returns the smallest pattern component", "multi-component template whose largest component has a WL orbit broken by the reaction centre, unsymmetrical substrate"),
 "C05_m2": ("module-level orbit cache keyed by the rule signature stores node ids of the first numbering", "the same rule applied twice in one process under different atom-map numberings"),
 "C06_m1": ("component-aware search prunes host components by the edge count of the whole pattern", "comp/bt strategy, disconnected pattern, host component with fewer bonds than the whole pattern"),
 "C06_m2": ("spanning patterns (same node count) matched by isomorphism instead of monomorphism", "exhaustive path, host with a bond between image atoms that the pattern lacks"),
 "C07_m1": ("WL-hash cache keyed by sorted node_attrs while hashes keep the engine's attribute order", "wl1_filter=True, two engines with permuted attribute lists sharing graph objects, specific query history"),
 "C07_m2": ("use_filter rejects spanning children with a different edge count", "use_filter=True, monomorphism mode, equal node counts, child with fewer edges"),
 "C08_m1": ("nauty leaf label no longer records non-edges", "a refined cell mixing non-equivalent vertices with identical bond orders (e.g. a 3-ring beside a 4-ring)"),
 "C08_m2": ("canonical_signature memoised under (id(graph), |V|, |E|)", "one canonicaliser reused across short-lived graphs of equal size, or an in-place attribute edit"),
 "C09_m1": ("balance check pre-filter compares GetNumAtoms of both sides", "balanced reaction with hydrogen written as an atom on one side only (H2, H+)"),
 "C09_m2": ("WL node-ordering tie-break uses str(node id)", "wl back-end, >=10 reactant atoms with WL-indistinguishable atoms straddling ids 9|10"),
 "C10_m1": ("changed-node list computed before the reindex relabelling", "reindex=True, an atom changing formal charge, node ids not already 1..n"),
 "C10_m2": ("implicit_hydrogen decrements a parent once per parent (same as C01_m2)", ">=2 preserved hydrogens on one heavy atom"),
 "C11_m1": ("AutoEst neighbour signatures sorted by colour only", "a node with two same-coloured neighbours attached by different bond orders, in different adjacency order on an equivalent node"),
 "C11_m2": ("exact-automorphism pruning built with anchor_largest_component=False", "automorphism=True, disconnected template side with >=2 symmetric components, unsymmetrical substrates"),
 "C12_m1": ("search start size capped by min(|E1|,|E2|)+1", "sparse multi-component inputs whose common part has more atoms than bonds+1"),
 "C12_m2": ("bond orders compared after round()", "half-integer order facing an order that differs by exactly 0.5 (1.5 vs 2)"),
 "C13_m1": ("fresh class id = len(templates)", "incremental classification against a template library whose class ids have gaps / do not start at 0"),
 "C13_m2": ("identical-graph shortcut compares node views and edge *sets* only", "a bond-order near miss that keeps node ids and node attributes, compared directly with the representative"),
 "C14_m1": ("rule-applier cache keyed by substrate content that ignores charge and hcount", "cache on, look-alike substrates (same skeleton, different protonation) in one serial batch"),
 "C14_m2": ("n_jobs==1 fast path of validate_smiles drops ignore_tautomers", "n_jobs=1, ignore_tautomers=False, a record matching only through a tautomer-equivalent atom"),
 "C15_m1": ("remove_rxn skips product-side bookkeeping for species that are also reactants", "removing a reaction with a species on both sides"),
 "C15_m2": ("incidence matrix cached while sorted species and ids are unchanged", "matrix requested, then an edit that keeps labels and ids but changes coefficients, then requested again"),
 "C16_m1": ("species-graph export omits per-reaction coefficients equal to the running minimum", ">=3 reactions on one species pair with a later smaller coefficient"),
 "C16_m2": ("bipartite import accumulates product coefficients on the reactant map", "a species on both sides of one reaction (catalyst)"),
 "C17_m1": ("is_consistent returns False when rank == min(n_species, n_reactions)", "more reactions than species, full row rank, positive steady flux exists (open systems)"),
 "C17_m2": ("incidence_matrix assigns instead of accumulating", "a species on both sides of one reaction"),
 "C18_m1": ("canonical search keeps stale leaf permutations when a better label is found", "a refinement cell that is not an orbit, and a naming for which the worse branch is visited first"),
 "C18_m2": ("refinement signature keeps outgoing-edge attributes in adjacency order", "bipartite view with stoichiometry, a node with two outgoing arcs of different coefficients, a comparable node listing them in the other order"),
 "C19_m1": ("linkage-class rank computed over a directed BFS tree from the first complex", "a linkage class whose first complex cannot reach every other complex"),
 "C19_m2": ("rank computed after de-duplicating columns of abs(S)", "two reactions whose net vectors have equal magnitudes but are not +/- each other"),
 "C20_m1": ("siphon enumeration stops once found siphons cover all species", ">=4 species, smaller siphons jointly covering all species while a larger minimal siphon exists"),
 "C20_m2": ("fire() adds products to the *input* marking", "a transition with the same place as input and output"),
}
for name, (what, needs) in N.items():
    p = os.path.join(V, "seeded", name, "meta.json")
    if not os.path.exists(p):
        print("missing", name); continue
    m = json.load(open(p))
    m["what"], m["needs"] = what, needs
    json.dump(m, open(p, "w"), indent=1)
print("done")
