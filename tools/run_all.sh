#!/bin/bash
# usage: tools/run_all.sh <tier> <seed> [ids...]   — runs checks sequentially, prints one line per check
cd "$(dirname "$0")/.."
tier=$1; seed=$2; shift 2
ids=${@:-C01 C02 C03 C04 C05 C06 C07 C08 C09 C10 C11 C12 C13 C14 C15 C16 C17 C18 C19 C20}
for c in $ids; do
  s=$(date +%s)
  VERIF_SEED=$seed ./check $c --tier $tier > /tmp/runall.$c.$tier.$seed.log 2>&1; rc=$?
  e=$(( $(date +%s) - s ))
  echo "$c tier=$tier seed=$seed rc=$rc ${e}s :: $(grep -v '^KNOWN' /tmp/runall.$c.$tier.$seed.log | tail -1 | cut -c1-160)"
done
