#!/bin/bash
# usage: tools/try_on.sh <commit-ish | patch.diff> <check args...>
# runs a check against a scratch worktree of /repo (at a commit, or HEAD + patch) without
# touching /repo or /verif/evidence; the worktree is removed afterwards.
what="$1"; shift
wt=$(mktemp -d /tmp/vtry.XXXXXX)
if [ -f "$what" ]; then
  git -C /repo worktree add -q --detach "$wt" HEAD || exit 3
  git -C "$wt" apply "$what" || { git -C /repo worktree remove --force "$wt"; exit 3; }
else
  git -C /repo worktree add -q --detach "$wt" "$what" || exit 3
fi
SYNKIT_SRC="$wt" VERIF_EVIDENCE_DIR="$wt/.ev" VERIF_REPLAY_DIR="$wt/.rp" "$(dirname "$0")/../check" "$@"
rc=$?
[ -n "$KEEP_EV" ] && cp -r "$wt/.ev" "$KEEP_EV" 2>/dev/null
git -C /repo worktree remove --force "$wt"
exit $rc
