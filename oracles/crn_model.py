"""Executable reference model of the reaction-network store (C15).
Plain dicts; no synkit imports.  `apply(op)` mirrors the documented behaviour and
returns ('ok', value) or ('raise', ExceptionTypeName)."""
from __future__ import annotations

import copy
import re


def parse_side(txt):
    txt = txt.strip()
    out = {}
    if txt in ("", "∅"):
        return out
    for part in txt.split("+"):
        part = part.strip().replace("*", " ")
        if not part:
            continue
        m = re.match(r"^(\d+)\s*([A-Za-z].*)$", part)
        if m:
            c, s = int(m.group(1)), m.group(2).strip()
        else:
            c, s = 1, part
        if c > 0:
            out[s] = out.get(s, 0) + c
    return out


class Model:
    def __init__(self):
        self.edges = {}  # id -> [rule, reactants dict, products dict]
        self.kept = set()  # species the caller ever kept with prune_orphans=False
        self.extra = set()  # species currently present although not occurring
        self.mol = {}
        self.counters = {}

    def clone(self):
        return copy.deepcopy(self)

    # ----- derived ----- #
    def occurring(self):
        sp = set()
        for _, a, b in self.edges.values():
            sp.update(a)
            sp.update(b)
        return sp

    def species(self):
        return self.occurring() | self.extra

    def _gen_id(self, rule):
        c = self.counters.get(rule, 0) + 1
        while f"{rule}_{c}" in self.edges:
            c += 1
        self.counters[rule] = c
        return f"{rule}_{c}"

    def _post(self):
        occ = self.occurring()
        self.extra -= occ  # an occurring species is no longer "extra"; if it later
        # stops occurring through remove_rxn it is pruned (documented behaviour)
        for s in list(self.mol):
            if s not in occ and s not in self.extra:
                del self.mol[s]

    # ----- operations ----- #
    def add(self, reactants, products, rule=None, edge_id=None):
        a = {s: c for s, c in reactants.items() if c > 0}
        b = {s: c for s, c in products.items() if c > 0}
        rule = rule or "r"
        if edge_id is not None and edge_id in self.edges:
            return ("raise", "KeyError")
        if not a and not b:
            return ("raise", "ValueError")
        if edge_id is None:
            edge_id = self._gen_id(rule)
        self.edges[edge_id] = [rule, a, b]
        self._post()
        return ("ok", edge_id)

    def add_str(self, text, rule=None):
        core, r = text, rule
        if "|" in text:
            core, meta = text.split("|", 1)
            m = re.search(r"rule\s*=\s*([^\s]+)", meta)
            if m and r is None:
                r = m.group(1)
        if ">>" not in core:
            return ("raise", "ValueError")
        left, right = core.split(">>", 1)
        return self.add(parse_side(left), parse_side(right), rule=r)

    def remove_rxn(self, eid):
        if eid not in self.edges:
            return ("raise", "KeyError")
        _, a, b = self.edges.pop(eid)
        # species of the removed reaction that no longer occur are pruned, even if
        # they had been "kept" before (they took part in a reaction since)
        occ = self.occurring()
        for s in set(a) | set(b):
            if s not in occ:
                self.extra.discard(s)
        self._post()
        return ("ok", None)

    def remove_species(self, s, prune=True):
        if s not in self.species():
            return ("raise", "KeyError")
        for eid in list(self.edges):
            _, a, b = self.edges[eid]
            a.pop(s, None)
            b.pop(s, None)
            if not a and not b:
                del self.edges[eid]
        if prune:
            self.extra.discard(s)
        else:
            self.extra.add(s)
            self.kept.add(s)
        self._post()
        return ("ok", None)

    def merge(self, other_edges, prefix=True):
        """other_edges: list of (id, rule, reactants, products)."""
        for oid, rule, a, b in other_edges:
            nid = oid
            if prefix or nid is None or nid in self.edges:
                nid = self._gen_id(rule)
            self.edges[nid] = [rule, dict(a), dict(b)]
        self._post()
        return ("ok", None)

    def assign_mol(self, s, mol):
        if s not in self.species():
            return ("raise", "KeyError")
        self.mol[s] = mol
        return ("ok", None)

    def set_mol_map(self, mapping, strict=True, clear=False):
        unknown = set(mapping) - self.species()
        if strict and unknown:
            return ("raise", "KeyError")
        if clear:
            self.mol.clear()
        for s, m in mapping.items():
            if s in self.species():
                self.mol[s] = m
        return ("ok", None)

    def snapshot(self):
        return {
            "edges": {k: [v[0], dict(v[1]), dict(v[2])] for k, v in self.edges.items()},
            "species": sorted(self.species()),
            "mol": dict(self.mol),
        }
