"""RDKit-only reference reader for mapped reaction SMILES (no synkit imports).

side_tables(smi)     -> atoms {map: (element, totalH_not_in_graph, charge, aromatic)}, bonds {frozenset(i,j): order}
change graph         -> bonds whose order differs, labelled by the difference; end atoms labelled
                        (element, dH) in an implicit-H normal form (explicit X-H changes folded into dH,
                        H-H bonds kept)
reference ITS        -> labelled graph for isomorphism tests
"""
from __future__ import annotations

import collections

import networkx as nx
from networkx.algorithms.isomorphism import GraphMatcher


def parse(smi):
    from rdkit import Chem

    m = Chem.MolFromSmiles(smi, sanitize=False)
    if m is None:
        return None
    try:
        Chem.SanitizeMol(m)
    except Exception:
        return None
    return m


KF_DATIVE = "dative-or-quadruple-bond-not-carried"
KF_ISOTOPE = "isotope-label-not-carried"


def representation_gap(text):
    """recorded limits of the graph layer, decided from the input alone: the bond table keeps only a numeric order
    (dative / quadruple bonds cannot be told from single / aromatic ones) and atoms carry no isotope label."""
    from rdkit import Chem
    for part in text.replace(">>", ".").split("."):
        if not part:
            continue
        m = Chem.MolFromSmiles(part, sanitize=False)
        if m is None:
            continue
        if any(a.GetIsotope() for a in m.GetAtoms()):
            return KF_ISOTOPE
        if any(b.GetBondType() in (Chem.BondType.DATIVE, Chem.BondType.QUADRUPLE, Chem.BondType.DATIVEONE, Chem.BondType.DATIVEL,
                                   Chem.BondType.DATIVER) or b.GetBondTypeAsDouble() > 3 for b in m.GetBonds()):
            return KF_DATIVE
    return None


def _fold_h_on_dummies(m):
    """RDKit keeps hydrogens on wildcard atoms explicit; fold them into the wildcard's hydrogen count so that
    [*][H] and [*H] are the same molecule for the comparison."""
    from rdkit import Chem
    todo = [a.GetIdx() for a in m.GetAtoms() if a.GetAtomicNum() == 1 and a.GetIsotope() == 0 and a.GetDegree() == 1
            and a.GetNeighbors()[0].GetAtomicNum() == 0]
    if not todo:
        return m
    rw = Chem.RWMol(m)
    for idx in sorted(todo, reverse=True):
        nb = rw.GetAtomWithIdx(idx).GetNeighbors()[0]
        nb.SetNoImplicit(True)
        nb.SetNumExplicitHs(nb.GetNumExplicitHs() + 1)
        rw.RemoveAtom(idx)
    out = rw.GetMol()
    try:
        Chem.SanitizeMol(out)
    except Exception:
        pass
    return out


def _smiles_without_stereo(m):
    """canonical SMILES that ignores stereo descriptors (the graph layer does not carry them) but keeps isotope labels."""
    from rdkit import Chem
    m = Chem.Mol(m)
    Chem.RemoveStereochemistry(m)
    return Chem.MolToSmiles(m)


def side_tables(smi):
    m = parse(smi)
    if m is None:
        return None
    atoms, bonds = {}, {}
    for a in m.GetAtoms():
        k = a.GetAtomMapNum()
        if k == 0 or k in atoms:
            return None
        atoms[k] = (a.GetSymbol(), a.GetTotalNumHs(), a.GetFormalCharge(), a.GetIsAromatic())
    for b in m.GetBonds():
        i, j = b.GetBeginAtom().GetAtomMapNum(), b.GetEndAtom().GetAtomMapNum()
        bonds[frozenset((i, j))] = b.GetBondTypeAsDouble()
    return atoms, bonds


def counts(smi):
    """element counts incl. all hydrogens, and total charge (key 'q')."""
    m = parse(smi)
    if m is None:
        return None
    cnt = collections.Counter()
    for a in m.GetAtoms():
        cnt[a.GetSymbol()] += 1
        cnt["H"] += a.GetTotalNumHs()
        cnt["q"] += a.GetFormalCharge()
    out = {k: v for k, v in cnt.items() if v and k != "q"}
    out["q"] = cnt["q"]  # total formal charge, kept even when zero or negative
    return out


def unmapped_canonical(smi):
    """canonical, non-isomeric, unmapped SMILES with explicit H folded in."""
    from rdkit import Chem

    m = parse(smi)
    if m is None:
        return None
    for a in m.GetAtoms():
        a.SetAtomMapNum(0)
    try:
        m = Chem.RemoveHs(m)
    except Exception:
        pass
    m = _fold_h_on_dummies(m)
    return _smiles_without_stereo(m)


def fragments_canonical(smi):
    s = unmapped_canonical(smi)
    return None if s is None else sorted(s.split("."))


# --------------------------------------------------------------------------- #
def change_graph_from_sides(A, B):
    """A, B = (atoms, bonds) with atoms {k: (element, H, charge, ...)}; implicit-H normal form."""
    atomsA, bondsA = A
    atomsB, bondsB = B
    g = nx.Graph()
    dH = {k: atomsB[k][1] - atomsA[k][1] for k in atomsA if k in atomsB}
    dQ = {k: atomsB[k][2] - atomsA[k][2] for k in atomsA if k in atomsB}
    isH = lambda k: atomsA[k][0] == "H"
    for e in set(bondsA) | set(bondsB):
        d = bondsB.get(e, 0) - bondsA.get(e, 0)
        if d == 0:
            continue
        i, j = tuple(e)
        hi, hj = isH(i), isH(j)
        if hi != hj:
            x = j if hi else i
            dH[x] = dH.get(x, 0) + d  # X-H bond formed => +1 H on X
        else:
            g.add_edge(i, j, d=d)
    for k, v in dH.items():
        if isH(k) and k not in g:
            continue
        if v != 0 or k in g:
            g.add_node(k)
    for k in g.nodes:
        g.nodes[k]["lab"] = (atomsA[k][0], dH.get(k, 0))
    return g


def cg_iso(a, b):
    return GraphMatcher(a, b, node_match=lambda x, y: x["lab"] == y["lab"],
                        edge_match=lambda x, y: x["d"] == y["d"]).is_isomorphic()


def its_sides(its):
    """split a SynKit ITS graph (typesGH, order pairs) into the two side tables."""
    A = ({}, {})
    B = ({}, {})
    for n, d in its.nodes(data=True):
        t0, t1 = d["typesGH"]
        A[0][n] = (t0[0], t0[2], t0[3], t0[1])
        B[0][n] = (t1[0], t1[2], t1[3], t1[1])
    for u, v, d in its.edges(data=True):
        o = d["order"]
        if not isinstance(o, tuple):
            o = (o, o)
        if o[0]:
            A[1][frozenset((u, v))] = o[0]
        if o[1]:
            B[1][frozenset((u, v))] = o[1]
    return A, B


def implicit_form(side):
    """fold hydrogens attached to a heavy atom into counts; keep H-H and isolated H."""
    atoms, bonds = side
    tot = {k: v[1] for k, v in atoms.items()}
    keep = {}
    attached = set()
    for e, o in bonds.items():
        i, j = tuple(e)
        hi, hj = atoms[i][0] == "H", atoms[j][0] == "H"
        if hi != hj:
            x, h = (j, i) if hi else (i, j)
            tot[x] += 1
            attached.add(h)
        else:
            keep[e] = o
    nodes = {k: (atoms[k][0], tot[k], atoms[k][2]) for k in atoms if k not in attached}
    return nodes, keep


def labelled(side_implicit):
    nodes, bonds = side_implicit
    g = nx.Graph()
    for k, v in nodes.items():
        g.add_node(k, lab=v)
    for e, o in bonds.items():
        i, j = tuple(e)
        g.add_edge(i, j, o=o)
    return g


def host_form(g):
    """SynKit molecule graph -> implicit-H labelled graph with the same node ids."""
    atoms = {n: (d["element"], d.get("hcount", 0), d.get("charge", 0)) for n, d in g.nodes(data=True)}
    bonds = {frozenset((u, v)): d["order"] for u, v, d in g.edges(data=True)}
    return labelled(implicit_form((atoms, bonds)))


def same_labelled(a, b):
    """identical node ids, labels and bond orders."""
    if set(a.nodes) != set(b.nodes) or {frozenset(e) for e in a.edges} != {frozenset(e) for e in b.edges}:
        return False
    if any(a.nodes[n]["lab"] != b.nodes[n]["lab"] for n in a.nodes):
        return False
    return all(a[u][v]["o"] == b[u][v]["o"] for u, v in a.edges)


# --------------------------------------------------------------------------- #
def reference_its(rsmi, aromatic=True):
    """reference ITS of a mapped reaction (labels per side + order pair), or None."""
    a, b = rsmi.split(">>")
    A, B = side_tables(a), side_tables(b)
    if A is None or B is None or set(A[0]) != set(B[0]):
        return None
    g = nx.Graph()
    for k in A[0]:
        la = A[0][k] if aromatic else A[0][k][:3]
        lb = B[0][k] if aromatic else B[0][k][:3]
        g.add_node(k, lab=(la, lb))
    for e in set(A[1]) | set(B[1]):
        i, j = tuple(e)
        g.add_edge(i, j, o=(A[1].get(e, 0), B[1].get(e, 0)))
    return g


def its_iso(g1, g2):
    return GraphMatcher(g1, g2, node_match=lambda x, y: x["lab"] == y["lab"],
                        edge_match=lambda x, y: x["o"] == y["o"]).is_isomorphic()


def reference_rc(g):
    """reaction centre of a reference ITS: changed bonds (+ H-H bonds) and their end atoms."""
    rc = nx.Graph()
    for u, v, d in g.edges(data=True):
        hh = g.nodes[u]["lab"][0][0] == "H" and g.nodes[v]["lab"][0][0] == "H"
        if d["o"][0] != d["o"][1] or hh:
            rc.add_node(u, **g.nodes[u])
            rc.add_node(v, **g.nodes[v])
            rc.add_edge(u, v, **d)
    return rc


def hmode(rsmi):
    """'explicit' (no atom's H count changes), 'implicit' (H counts change, no H node at a changed bond),
    'mixed' otherwise; decided from the input alone."""
    a, b = rsmi.split(">>")
    A, B = side_tables(a), side_tables(b)
    if A is None or B is None:
        return None
    dH = {k: B[0][k][1] - A[0][k][1] for k in A[0] if k in B[0]}
    changed = {e for e in set(A[1]) | set(B[1]) if A[1].get(e, 0) != B[1].get(e, 0)}
    h_at_centre = any(A[0][k][0] == "H" for e in changed for k in e)
    if not any(dH.values()):
        return "explicit"
    if not h_at_centre:
        return "implicit"
    return "mixed"


def centre_complete(rsmi):
    """every atom whose (element, aromatic, H, charge) differs between the sides is an end atom of a changed bond."""
    a, b = rsmi.split(">>")
    A, B = side_tables(a), side_tables(b)
    changed_atoms = {k for e in set(A[1]) | set(B[1]) if A[1].get(e, 0) != B[1].get(e, 0) for k in e}
    for k in A[0]:
        if A[0][k] != B[0][k] and k not in changed_atoms:
            return False
    return True
