"""Independent brute-force enumerators (plain back-tracking over injective maps; no VF2,
no synkit).  Graphs are networkx Graph/DiGraph used as containers only.

embeddings(P, H, node_ok, edge_ok, induced): all injective maps P->H with
   node_ok(p_attrs, h_attrs); every P edge lands on an H edge with edge_ok(p_eattrs, h_eattrs);
   induced=True additionally requires non-edges of P to land on non-edges of H.
"""
from __future__ import annotations

import itertools


def _order(P):
    """connectivity-aware static order (most constrained first)."""
    nodes = list(P.nodes)
    if not nodes:
        return []
    und = P.to_undirected() if P.is_directed() else P
    seen, order = set(), []
    for start in sorted(nodes, key=lambda n: -und.degree(n)):
        if start in seen:
            continue
        stack = [start]
        while stack:
            x = stack.pop()
            if x in seen:
                continue
            seen.add(x)
            order.append(x)
            stack.extend(sorted((y for y in und[x] if y not in seen), key=lambda n: und.degree(n)))
    return order


def embeddings(P, H, node_ok, edge_ok, induced=False, limit=None):
    order = _order(P)
    hnodes = list(H.nodes)
    directed = P.is_directed()
    cand = {p: [h for h in hnodes if node_ok(P.nodes[p], H.nodes[h])] for p in order}
    out = []
    m = {}
    used = set()

    def consistent(p, h):
        for q, g in m.items():
            pairs = ((p, q, h, g), (q, p, g, h)) if directed else ((p, q, h, g),)
            for a, b, c, d in pairs:
                pe = P.has_edge(a, b)
                he = H.has_edge(c, d)
                if pe:
                    if not he or not edge_ok(P[a][b], H[c][d]):
                        return False
                elif induced and he:
                    return False
        if P.has_edge(p, p):
            if not H.has_edge(h, h) or not edge_ok(P[p][p], H[h][h]):
                return False
        return True

    def go(i):
        if limit is not None and len(out) >= limit:
            return
        if i == len(order):
            out.append(dict(m))
            return
        p = order[i]
        for h in cand[p]:
            if h in used or not consistent(p, h):
                continue
            m[p] = h
            used.add(h)
            go(i + 1)
            del m[p]
            used.discard(h)

    go(0)
    return out


def isomorphisms(G1, G2, node_ok, edge_ok, limit=None):
    if G1.number_of_nodes() != G2.number_of_nodes() or G1.number_of_edges() != G2.number_of_edges():
        return []
    return embeddings(G1, G2, node_ok, edge_ok, induced=True, limit=limit)


def is_isomorphic(G1, G2, node_ok, edge_ok):
    return bool(isomorphisms(G1, G2, node_ok, edge_ok, limit=1))


def automorphisms(G, node_ok, edge_ok, limit=None):
    return isomorphisms(G, G, node_ok, edge_ok, limit=limit)


def orbits_from(nodes, autos):
    par = {n: n for n in nodes}

    def find(x):
        while par[x] != x:
            par[x] = par[par[x]]
            x = par[x]
        return x

    for a in autos:
        for u, v in a.items():
            ru, rv = find(u), find(v)
            if ru != rv:
                par[ru] = rv
    cls = {}
    for n in nodes:
        cls.setdefault(find(n), set()).add(n)
    return {frozenset(c) for c in cls.values()}


def eq_on(keys, default=None):
    keys = tuple(keys)

    def ok(a, b):
        return all(a.get(k, default) == b.get(k, default) for k in keys)

    return ok


def all_injections_bruteforce(P, H, node_ok, edge_ok, induced=False):
    """permutation-based double check for tiny sizes (used to self-test `embeddings`)."""
    pn = list(P.nodes)
    out = []
    directed = P.is_directed()
    for img in itertools.permutations(list(H.nodes), len(pn)):
        m = dict(zip(pn, img))
        if not all(node_ok(P.nodes[p], H.nodes[m[p]]) for p in pn):
            continue
        ok = True
        for a in pn:
            for b in pn:
                if a == b or (not directed and repr(a) > repr(b)):
                    continue
                pe, he = P.has_edge(a, b), H.has_edge(m[a], m[b])
                if pe and (not he or not edge_ok(P[a][b], H[m[a]][m[b]])):
                    ok = False
                elif induced and he and not pe:
                    ok = False
                if not ok:
                    break
            if not ok:
                break
        if ok:
            out.append(m)
    return out
