"""Exact rational linear algebra for the C17/C19 oracles.

rank / kernel dimension: Gaussian elimination over fractions.Fraction.
strict positivity of a kernel vector (exists x > 0 with A x = 0): z3 proposes either
a positive kernel vector or the Stiemke alternative (y with A^T y >= 0, != 0); the
certificate is re-verified here in Fractions, so z3 is not trusted."""
from __future__ import annotations

from fractions import Fraction
from functools import lru_cache


def rank(M):
    M = [[Fraction(x) for x in row] for row in M]
    if not M or not M[0]:
        return 0
    r = 0
    rows, cols = len(M), len(M[0])
    for c in range(cols):
        piv = None
        for i in range(r, rows):
            if M[i][c] != 0:
                piv = i
                break
        if piv is None:
            continue
        M[r], M[piv] = M[piv], M[r]
        pv = M[r][c]
        M[r] = [x / pv for x in M[r]]
        for i in range(rows):
            if i != r and M[i][c] != 0:
                f = M[i][c]
                M[i] = [a - f * b for a, b in zip(M[i], M[r])]
        r += 1
        if r == rows:
            break
    return r


def transpose(M):
    if not M:
        return []
    return [list(col) for col in zip(*M)]


def matvec(A, x):
    return [sum(Fraction(a) * Fraction(b) for a, b in zip(row, x)) for row in A]


def _frac(v):
    return Fraction(v.numerator_as_long(), v.denominator_as_long())


@lru_cache(maxsize=200000)
def _positive_kernel_cached(key):
    nrows, ncols, flat = key
    A = [list(flat[i * ncols:(i + 1) * ncols]) for i in range(nrows)]
    return _positive_kernel(A, ncols)


def positive_kernel_vector(A, ncols=None):
    """decide: exists x in Q^n, x > 0 (all components), A x = 0.
    returns (True, x) with verified positive kernel vector, or (False, y) with verified
    Stiemke certificate (A^T y >= 0 and != 0).  A is a list of rows of ints.
    n = 0: vacuously (True, [])."""
    if ncols is None:
        ncols = len(A[0]) if A else 0
    if ncols == 0:
        return True, []
    A = [list(r) for r in A if any(r)]
    # canonical key: columns sorted is not valid for the certificate order, keep order
    key = (len(A), ncols, tuple(x for r in A for x in r))
    return _positive_kernel_cached(key)


def _positive_kernel(A, n):
    import z3

    if not A:
        return True, [Fraction(1)] * n
    s = z3.Solver()
    xs = [z3.Real(f"x{j}") for j in range(n)]
    for x in xs:
        s.add(x >= 1)
    for row in A:
        s.add(z3.Sum([int(a) * x for a, x in zip(row, xs) if a]) == 0)
    if s.check() == z3.sat:
        m = s.model()
        x = [_frac(m.eval(v, model_completion=True)) for v in xs]
        assert all(v > 0 for v in x) and all(v == 0 for v in matvec(A, x)), "bad positive certificate"
        return True, x
    # Stiemke alternative
    s = z3.Solver()
    ys = [z3.Real(f"y{i}") for i in range(len(A))]
    cols = []
    for j in range(n):
        e = z3.Sum([int(A[i][j]) * ys[i] for i in range(len(A)) if A[i][j]]) if any(A[i][j] for i in range(len(A))) else z3.RealVal(0)
        s.add(e >= 0)
        cols.append(e)
    s.add(z3.Sum(cols) >= 1)
    assert s.check() == z3.sat, "neither a positive kernel vector nor a Stiemke certificate"
    m = s.model()
    y = [_frac(m.eval(v, model_completion=True)) for v in ys]
    w = matvec(transpose(A), y)
    assert all(v >= 0 for v in w) and any(v > 0 for v in w), "bad Stiemke certificate"
    return False, y
