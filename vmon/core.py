"""vmon.core — runner for the runtime-monitoring checks.

Parent process:  ./check Cxx --tier quick|thorough  (or --replay file)
  * spawns N shard subprocesses (subprocess.run with a watchdog timeout, never
    multiprocessing.Pool), each with its own PYTHONHASHSEED and PRNG stream,
  * merges counters / digests / samples / violations,
  * matches violations against known_findings.json (never written at run time),
  * writes evidence/<id>.json and prints VIOLATION / KNOWN-FINDING / INCONCLUSIVE
    lines, exit 0 / 1 / 2.

Shard process:  python -m vmon.core --shard ...   runs checks.<id>.run(ctx).
"""
from __future__ import annotations

import argparse
import hashlib
import importlib
import json
import os
import random
import subprocess
import sys
import time
import traceback
from collections import Counter
from concurrent.futures import ThreadPoolExecutor

VERIF = os.path.dirname(os.path.dirname(os.path.abspath(__file__)))
REPO = os.environ.get("SYNKIT_SRC", "/repo")
DEPS = os.path.join(VERIF, ".deps")
WORK = os.path.join(VERIF, ".work")
PY = "/venv/bin/python"
GUARD = "SYNKIT_VERIF"


# --------------------------------------------------------------------------- #
# helpers
# --------------------------------------------------------------------------- #
def digest(obj) -> str:
    """short stable digest of a JSON-able / repr-able key."""
    if not isinstance(obj, str):
        obj = json.dumps(obj, sort_keys=True, default=repr)
    return hashlib.sha1(obj.encode()).hexdigest()[:12]


def jsonable(x):
    """best-effort conversion of witnesses to JSON-able values."""
    import numbers

    if x is None or isinstance(x, (bool, str)):
        return x
    if isinstance(x, numbers.Integral):
        return int(x)
    if isinstance(x, numbers.Real):
        return float(x)
    if isinstance(x, dict):
        return {str(k): jsonable(v) for k, v in x.items()}
    if isinstance(x, (list, tuple)):
        return [jsonable(v) for v in x]
    if isinstance(x, (set, frozenset)):
        try:
            return [jsonable(v) for v in sorted(x)]
        except TypeError:
            return [jsonable(v) for v in sorted(x, key=repr)]
    return repr(x)


class Ctx:
    """Per-shard context handed to checks.<id>.run()."""

    MAX_SAMPLES = 6
    MAX_VIOL = 40

    def __init__(self, pid, tier, seed, shard, nshards):
        self.pid, self.tier, self.seed = pid, tier, seed
        self.shard, self.nshards = shard, nshards
        self.rng = random.Random(f"{pid}/{seed}/{shard}")
        self.counters = Counter()
        self.evaluations = 0
        self.digests = set()
        self.samples = []
        self.violations = []
        self.viol_total = 0
        self.reach = {}
        self.exhaustive = {}
        self.t0 = time.time()
        self.budget_s = None  # soft budget for random workloads
        self._oot_calls = {}
        self.notes = []
        self.xshard = {}  # key -> value that must agree across shards (different hash seeds)

    # ----- bookkeeping -------------------------------------------------- #
    @property
    def quick(self):
        return self.tier == "quick"

    def mine(self, index: int) -> bool:
        """deterministic sharding of enumerated spaces."""
        return index % self.nshards == self.shard

    def count(self, name, n=1):
        self.counters[name] += n

    def case(self, key, nontrivial=True, sample=None):
        """one monitored execution / input; key identifies the distinct input."""
        self.evaluations += 1
        if nontrivial:
            self.digests.add(digest(key))
        if sample is not None and len(self.samples) < self.MAX_SAMPLES:
            self.samples.append(jsonable(sample))

    def violation(self, kind, witness, msg="", finding=None, witness_id=None):
        """record a violation.  `finding`: key of the known-finding mechanism the
        check's own classifier attributes this violation to (None = unattributed)."""
        self.viol_total += 1
        self.counters["violations/" + kind] += 1
        if len(self.violations) < self.MAX_VIOL or finding is None:
            self.violations.append(
                {
                    "kind": kind,
                    "msg": msg,
                    "finding": finding,
                    "witness_id": witness_id,
                    "witness": jsonable(witness),
                    "shard": self.shard,
                }
            )

    def elapsed(self):
        return time.time() - self.t0

    def out_of_time(self, frac=1.0):
        """wall-clock budget of a workload loop.  The first MIN_ITER calls from every call site answer False, so that on
        a loaded machine every budget-guarded family is still exercised (the budget only trims, it never skips)."""
        import sys as _sys
        f = _sys._getframe(1)
        site = (f.f_code.co_filename, f.f_lineno)
        k = self._oot_calls.get(site, 0) + 1
        self._oot_calls[site] = k
        if k <= self.MIN_ITER:
            return False
        return self.budget_s is not None and self.elapsed() > self.budget_s * frac

    MIN_ITER = 24

    def dump(self):
        return {
            "counters": dict(self.counters),
            "evaluations": self.evaluations,
            "digests": sorted(self.digests),
            "samples": self.samples,
            "violations": self.violations,
            "viol_total": self.viol_total,
            "reach": self.reach,
            "exhaustive": self.exhaustive,
            "notes": self.notes,
            "xshard": self.xshard,
            "wall_s": self.elapsed(),
            "hashseed": os.environ.get("PYTHONHASHSEED"),
        }


def quiet():
    """silence synkit / rdkit chatter in shard processes."""
    import logging
    import warnings

    logging.disable(logging.CRITICAL)
    warnings.filterwarnings("ignore")
    try:
        from rdkit import RDLogger

        RDLogger.DisableLog("rdApp.*")
    except Exception:
        pass


def load_check(pid):
    return importlib.import_module(f"checks.{pid.lower()}")


# --------------------------------------------------------------------------- #
# shard entry
# --------------------------------------------------------------------------- #
def shard_main(a):
    quiet()
    mod = load_check(a.pid)
    ctx = Ctx(a.pid, a.tier, a.seed, a.shard, a.nshards)
    budgets = getattr(mod, "BUDGET_S", {"quick": 60, "thorough": 600})
    ctx.budget_s = budgets[a.tier]
    status = "ok"
    try:
        mod.run(ctx)
    except Exception:
        status = "error"
        ctx.notes.append(traceback.format_exc()[-3000:])
    out = ctx.dump()
    out["status"] = status
    with open(a.out, "w") as fh:
        json.dump(out, fh)
    return 0


# --------------------------------------------------------------------------- #
# parent
# --------------------------------------------------------------------------- #
def ensure_deps():
    if os.path.isdir(os.path.join(DEPS, "icontract")) and os.path.isdir(
        os.path.join(DEPS, "z3")
    ):
        return
    subprocess.run(
        [os.path.join(VERIF, "setup.sh")], check=True, stdout=subprocess.DEVNULL
    )


def child_env(hashseed):
    env = dict(os.environ)
    env["PYTHONPATH"] = os.pathsep.join([REPO, VERIF, DEPS])
    env["PYTHONHASHSEED"] = str(hashseed)
    env[GUARD] = "1"
    env["PYTHONDONTWRITEBYTECODE"] = "1"
    env.setdefault("OMP_NUM_THREADS", "1")
    env.setdefault("OPENBLAS_NUM_THREADS", "1")
    env.setdefault("MKL_NUM_THREADS", "1")
    return env


def load_known():
    p = os.path.join(VERIF, "known_findings.json")
    if not os.path.exists(p):
        return []
    with open(p) as fh:
        return json.load(fh).get("findings", [])


def match_known(pid, v, known):
    """a violation is known iff its classifier key matches a listed finding of this
    property and (when the finding pins witnesses) its witness id is listed."""
    if not v.get("finding"):
        return None
    for k in known:
        if k["property"] != pid or k["key"] != v["finding"]:
            continue
        pinned = k.get("witness_ids")
        if pinned is not None and v.get("witness_id") not in pinned:
            continue
        return k
    return None


def parent_main(a):
    pid = a.pid
    tier = a.tier or os.environ.get("VERIF_TIER") or "quick"
    seed = int(a.seed if a.seed is not None else os.environ.get("VERIF_SEED", "0"))
    ensure_deps()
    sys.path[:0] = [REPO, VERIF, DEPS]
    mod = load_check(pid)
    os.makedirs(WORK, exist_ok=True)
    os.makedirs(os.path.join(VERIF, "evidence"), exist_ok=True)
    t0 = time.time()

    if a.replay:
        return replay_main(mod, pid, a.replay)

    nsh = a.shards or getattr(mod, "SHARDS", {"quick": 8, "thorough": 16})[tier]
    nsh = max(1, min(nsh, os.cpu_count() or 4))
    watchdog = getattr(mod, "WATCHDOG_S", {"quick": 1500, "thorough": 4 * 3600})[tier]
    run_id = f"{pid}.{tier}.{seed}.{os.getpid()}"

    def one(i):
        out = os.path.join(WORK, f"{run_id}.{i}.json")
        cmd = [
            PY,
            "-m",
            "vmon.core",
            "--shard-run",
            pid,
            "--tier",
            tier,
            "--seed",
            str(seed),
            "--shard",
            str(i),
            "--nshards",
            str(nsh),
            "--out",
            out,
        ]
        hs = (seed * 1000003 + i * 7919 + 1) % 4294967295
        try:
            p = subprocess.run(
                cmd,
                env=child_env(hs),
                cwd=VERIF,
                timeout=watchdog,
                stdout=subprocess.PIPE,
                stderr=subprocess.STDOUT,
                text=True,
            )
            tail = (p.stdout or "")[-2000:]
            rc = p.returncode
        except subprocess.TimeoutExpired:
            return {"status": "timeout", "shard": i}
        if not os.path.exists(out):
            return {"status": "crash", "shard": i, "rc": rc, "tail": tail}
        with open(out) as fh:
            d = json.load(fh)
        os.remove(out)
        d["shard"] = i
        d["tail"] = tail
        return d

    with ThreadPoolExecutor(max_workers=nsh) as ex:
        results = list(ex.map(one, range(nsh)))

    # ---------------- merge ---------------- #
    counters = Counter()
    digests = set()
    samples, violations, notes = [], [], []
    evaluations = 0
    reach = {}
    exhaustive = {}
    hashseeds = []
    bad_shards = []
    for r in results:
        if r.get("status") != "ok":
            bad_shards.append(
                {k: r.get(k) for k in ("status", "shard", "rc", "tail", "notes")}
            )
            if r.get("status") in ("timeout", "crash"):
                continue
        counters.update(r.get("counters", {}))
        digests.update(r.get("digests", []))
        evaluations += r.get("evaluations", 0)
        for s in r.get("samples", []):
            if len(samples) < 8:
                samples.append(s)
        violations.extend(r.get("violations", []))
        for k, v in r.get("reach", {}).items():
            cur = reach.setdefault(k, {"lines": v.get("lines", 0), "hit": set()})
            cur["hit"].update(v.get("hit", []))
        for k, v in r.get("exhaustive", {}).items():
            exhaustive[k] = exhaustive.get(k, True) and bool(v)
        notes.extend(r.get("notes", []))
        hashseeds.append(r.get("hashseed"))

    # values that every shard computed for the same key must agree (cross-process /
    # cross-hash-seed determinism)
    xs = {}
    for r in results:
        for k, val in (r.get("xshard") or {}).items():
            xs.setdefault(k, {}).setdefault(json.dumps(val, sort_keys=True, default=repr), []).append(r.get("shard"))
    counters["xshard_keys_compared"] = sum(1 for k, v in xs.items() if sum(len(s) for s in v.values()) > 1)
    for k, vals in xs.items():
        if len(vals) > 1:
            violations.append({"kind": "cross-shard-nondeterminism", "finding": None, "witness_id": None,
                               "msg": f"{k}: shards with different hash seeds computed different values {list(vals.items())[:3]}",
                               "witness": {"key": k, "values": {a: b for a, b in list(vals.items())[:4]}}, "shard": -1})
    known = load_known()
    known_hit = Counter()
    known_wids = {}
    new_viol = []
    for v in violations:
        k = match_known(pid, v, known)
        if k is not None:
            known_hit[k["key"]] += 1
            if v.get("witness_id"):
                known_wids.setdefault(k["key"], set()).add(v["witness_id"])
        else:
            new_viol.append(v)

    # required counters → inconclusive when a deciding monitor was never reached
    required = getattr(mod, "REQUIRED", [])
    missing = [c for c in required if counters.get(c, 0) <= 0]
    min_nontrivial = getattr(mod, "MIN_NONTRIVIAL", 2)

    reach_out = {
        k: {"lines_in_scope": v["lines"], "lines_hit": len(v["hit"])}
        for k, v in reach.items()
    }
    coverage = {
        "evaluations": evaluations,
        "distinct_nontrivial": len(digests),
        "rule": getattr(mod, "RULE", ""),
        "samples": samples or ["<none>"],
        "counters": dict(sorted(counters.items())),
        "reach": reach_out,
        "shards": nsh,
        "hash_seeds": hashseeds,
        "known_findings_reproduced": dict(known_hit),
        "known_finding_witnesses": {k: sorted(v) for k, v in known_wids.items()},
        "exhaustive_subspaces": exhaustive,
        "bad_shards": bad_shards,
    }
    if exhaustive and all(exhaustive.values()) and not bad_shards:
        coverage["exhaustive_note"] = (
            "sub-spaces listed in exhaustive_subspaces were enumerated completely; "
            "random workloads on top are not exhaustive"
        )
    ev = {
        "property_id": pid,
        "tier": tier,
        "seed": seed,
        "level": "exploration",
        "coverage": coverage,
        "assumptions": getattr(mod, "ASSUMPTIONS", []),
        "wall_s": round(time.time() - t0, 2),
        "violations": len(new_viol),
    }
    evpath = os.path.join(os.environ.get("VERIF_EVIDENCE_DIR") or os.path.join(VERIF, "evidence"), f"{pid}.json")
    os.makedirs(os.path.dirname(evpath), exist_ok=True)
    with open(evpath, "w") as fh:
        json.dump(ev, fh, indent=1, default=repr)
        fh.write("\n")

    # ---------------- verdict ---------------- #
    for k in known:
        if k["property"] == pid and known_hit.get(k["key"]):
            print(
                f"KNOWN-FINDING: property={pid} {k['key']}: {k['what']} "
                f"(reproduced {known_hit[k['key']]}x)"
            )
    rc = 0
    if new_viol:
        rdir = os.path.join(os.environ.get("VERIF_REPLAY_DIR") or os.path.join(VERIF, "replays"), pid)
        os.makedirs(rdir, exist_ok=True)
        seen = set()
        for v in new_viol:
            name = f"{v['kind'].replace('/', '_')}-{digest(v['witness'])}.json"
            if name in seen:
                continue
            seen.add(name)
            path = os.path.join(rdir, name)
            with open(path, "w") as fh:
                json.dump(
                    {"property": pid, "tier": tier, "seed": seed, **v}, fh, indent=1
                )
            if len(seen) <= 10:
                print(f"VIOLATION property={pid} replay={path}")
                print(f"  kind={v['kind']} {v['msg'][:300]}")
        rc = 1
    elif bad_shards or missing or len(digests) < min_nontrivial or evaluations == 0:
        print(
            f"INCONCLUSIVE property={pid} missing_counters={missing} "
            f"bad_shards={[(b['status'], b['shard']) for b in bad_shards]} "
            f"distinct_nontrivial={len(digests)}"
        )
        for b in bad_shards:
            for n in b.get("notes") or []:
                print(n)
            if b.get("tail"):
                print(b["tail"])
        rc = 2
    print(
        f"{pid} tier={tier} seed={seed} shards={nsh} evaluations={evaluations} "
        f"distinct_nontrivial={len(digests)} violations={len(new_viol)} "
        f"known={sum(known_hit.values())} wall={ev['wall_s']}s -> "
        f"{'HELD' if rc == 0 else ('VIOLATED' if rc == 1 else 'INCONCLUSIVE')}"
    )
    if a.verbose:
        print(json.dumps(coverage["counters"], indent=1))
        for n in notes[:20]:
            print("note:", n)
    return rc


def replay_main(mod, pid, path):
    quiet()
    with open(path) as fh:
        v = json.load(fh)
    ctx = Ctx(pid, v.get("tier", "quick"), int(v.get("seed", 0)), 0, 1)
    mod.replay(ctx, v)
    known = load_known()
    new = [x for x in ctx.violations if match_known(pid, x, known) is None]
    for x in ctx.violations:
        print(f"  replayed kind={x['kind']} finding={x['finding']} {x['msg'][:400]}")
    if new:
        print(f"VIOLATION property={pid} replay={path}")
        return 1
    print(f"{pid} replay: no (new) violation reproduced")
    return 0


def main(argv=None):
    ap = argparse.ArgumentParser()
    ap.add_argument("pid", nargs="?")
    ap.add_argument("--tier", choices=["quick", "thorough"])
    ap.add_argument("--seed", type=int)
    ap.add_argument("--replay")
    ap.add_argument("--shards", type=int)
    ap.add_argument("--verbose", "-v", action="store_true")
    ap.add_argument("--shard-run")
    ap.add_argument("--shard", type=int, default=0)
    ap.add_argument("--nshards", type=int, default=1)
    ap.add_argument("--out")
    a = ap.parse_args(argv)
    if a.shard_run:
        a.pid = a.shard_run
        return shard_main(a)
    if not a.pid:
        ap.error("property id required")
    a.pid = a.pid.upper()
    return parent_main(a)


if __name__ == "__main__":
    sys.exit(main())
