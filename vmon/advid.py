"""Legal adversarial id(): CPython only promises ids are unique among simultaneously
alive objects.  The shim returns the real id for objects that stay referenced and, by a
seeded coin, one fixed value for temporaries that die on return (recognised by
sys.getrefcount(obj) <= 2 inside the shim).  Installed as the module-global name `id`
of a target module; never as builtins.id."""
import builtins
import collections
import random
import sys


def make_adv_id(seed, p=0.7):
    rng = random.Random(seed)
    stats = collections.Counter()

    def _adv_id(obj, _grc=sys.getrefcount, _bid=builtins.id):
        stats["calls"] += 1
        if _grc(obj) <= 2:  # temporary that dies on return (plain-function shim, py3.12)
            stats["temp"] += 1
            if rng.random() < p:
                stats["collide"] += 1
                return 0x7EAD0000
        return _bid(obj)

    return _adv_id, stats


def install(module, seed, p=0.7):
    f, stats = make_adv_id(seed, p)
    module.id = f
    return stats
