"""Attach monitors to real callables from outside the repository.

wrap(module, name, make_wrapper): replaces module.name by make_wrapper(original) and rebinds every
alias already imported elsewhere (`from m import f` copies found by scanning sys.modules)."""
import sys

_done = {}


def wrap(module, name, make_wrapper):
    key = (module.__name__, name)
    if key in _done:
        return _done[key]
    orig = getattr(module, name)
    new = make_wrapper(orig)
    new.__wrapped_original__ = orig
    n_alias = 0
    for mod in list(sys.modules.values()):
        d = getattr(mod, "__dict__", None)
        if not d:
            continue
        for k, v in list(d.items()):
            if v is orig:
                try:
                    setattr(mod, k, new)
                    n_alias += 1
                except Exception:
                    pass
    _done[key] = (orig, new, n_alias)
    return _done[key]


def wrap_method(cls, name, make_wrapper):
    key = (cls.__module__ + "." + cls.__qualname__, name)
    if key in _done:
        return _done[key]
    raw = cls.__dict__[name]
    if isinstance(raw, staticmethod):
        new = staticmethod(make_wrapper(raw.__func__))
    elif isinstance(raw, classmethod):
        new = classmethod(make_wrapper(raw.__func__))
    elif isinstance(raw, property):
        new = property(make_wrapper(raw.fget), raw.fset, raw.fdel, raw.__doc__)
    else:
        new = make_wrapper(raw)
    setattr(cls, name, new)
    _done[key] = (raw, new, 1)
    return _done[key]
