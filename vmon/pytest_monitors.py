"""pytest plugin: run the repository's own test-suite with the unconditional monitors installed.
Enabled with `-p vmon.pytest_monitors`; monitors chosen by env VMON_SUITE_MONITORS (comma list of
c01,c03,c11,c15,c20; default all); results written as JSON to env VMON_SUITE_OUT at session end."""
import json
import os


def _want():
    return [x for x in os.environ.get("VMON_SUITE_MONITORS", "c01,c03,c11,c15,c20").split(",") if x]


def pytest_sessionstart(session):
    from vmon.core import quiet  # keep rdkit/synkit chatter out of the report
    w = _want()
    if "c01" in w:
        from checks import c01
        c01.install()
    if "c03" in w:
        from checks import c03
        c03.install()
    if "c11" in w:
        from checks import reactor_common
        reactor_common.install()
    if "c15" in w:
        from checks import c15
        c15.install()
    if "c20" in w:
        from checks import c20
        c20.install()


def pytest_sessionfinish(session, exitstatus):
    out = {"exitstatus": int(exitstatus), "monitors": {}}
    w = _want()
    if "c01" in w:
        from checks import c01
        out["monitors"]["c01"] = {"evals": c01._st["evals"], "failures": [str(x)[:500] for x in c01._fail[:5]]}
    if "c03" in w:
        from checks import c03
        out["monitors"]["c03"] = {"evals": c03.ST.get("its_evals", 0) + c03.ST.get("smarts_evals", 0),
                                  "results": c03.ST.get("its_results", 0) + c03.ST.get("smarts_results", 0),
                                  "skipped": c03.ST.get("skipped", {}),
                                  "failures": [[k, str(w_)[:300], m[:300]] for f_, k, w_, m in c03.FAIL[:5] if f_ is None]}
    if "c11" in w:
        from checks import reactor_common as RC
        out["monitors"]["c11"] = {"evals": RC.STATS["dedup_calls"], "failures": [str(x)[:500] for x in RC.FAIL[:5]]}
    if "c15" in w:
        from checks import c15
        out["monitors"]["c15"] = {"evals": c15._inv_evals[0], "failures": [str(x)[:500] for x in c15._inv_fail[:5]]}
    if "c20" in w:
        from checks import c20
        out["monitors"]["c20"] = {"evals": c20._ct["enabled"] + c20._ct["fire"], "failures": [str(x)[:500] for x in c20._contract_fail[:5]]}
    p = os.environ.get("VMON_SUITE_OUT")
    if p:
        with open(p, "w") as fh:
            json.dump(out, fh)
