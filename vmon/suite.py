"""run the repository's pinned test-suite under one monitor and fold the outcome into a check's context."""
import json
import os
import subprocess
import tempfile

from vmon.core import REPO, VERIF, DEPS, PY


def run_under(ctx, monitor, timeout=1800):
    out = tempfile.mktemp(prefix="suite_mon.", suffix=".json", dir=os.path.join(VERIF, ".work"))
    env = dict(os.environ, PYTHONPATH=os.pathsep.join([REPO, VERIF, DEPS]), VMON_SUITE_MONITORS=monitor, VMON_SUITE_OUT=out,
               PYTHONDONTWRITEBYTECODE="1")
    try:
        p = subprocess.run([PY, "-m", "pytest", "-q", "-p", "no:cacheprovider", "-p", "vmon.pytest_monitors", "--timeout=900",
                            os.path.join(REPO, "Test")], cwd=REPO, env=env, stdout=subprocess.PIPE, stderr=subprocess.STDOUT,
                           text=True, timeout=timeout)
    except subprocess.TimeoutExpired:
        ctx.count("suite_under_monitors_timeout")
        return
    tail = [l for l in p.stdout.strip().splitlines() if "passed" in l or "failed" in l or "error" in l][-1:]
    ctx.notes.append(f"suite under monitor {monitor}: {tail}")
    if not os.path.exists(out):
        ctx.count("suite_under_monitors_no_report")
        return
    d = json.load(open(out))
    os.remove(out)
    m = d["monitors"].get(monitor, {})
    ctx.count("suite_under_monitors_evals", int(m.get("evals", 0)))
    ctx.count("suite_under_monitors_runs")
    if "failed" in (tail[0] if tail else "") or d.get("exitstatus") not in (0,):
        ctx.count("suite_under_monitors_suite_not_green")
    for f in m.get("failures", [])[:3]:
        ctx.violation("suite-under-monitors", {"monitor": monitor, "failure": f},
                      f"the {monitor} monitor fired while the repository's own test-suite was running: {str(f)[:300]}")
