"""Corpus access + chemistry-preserving variant generators (shared by C01–C05, C08–C10, C13, C14).

Reactions: Data/ecoli.json.gz (274) + Data/Testcase/graph.pkl.gz (100, with ITS/RC graphs).
Well-formedness is decided from the input alone, with the same parser mode SynKit uses
(MolFromSmiles(sanitize=False) + SanitizeMol keeps mapped explicit H)."""
from __future__ import annotations

import gzip
import json
import os
import pickle
import re
from functools import lru_cache

REPO = os.environ.get("SYNKIT_SRC", "/repo")


def _ld(path):
    b = open(path, "rb").read()
    if b[:2] == b"\x1f\x8b":
        b = gzip.decompress(b)
    return b


@lru_cache(maxsize=None)
def pickled():
    return pickle.loads(_ld(os.path.join(REPO, "Data/Testcase/graph.pkl.gz")))


@lru_cache(maxsize=None)
def reactions():
    eco = [d["smart"] for d in json.loads(_ld(os.path.join(REPO, "Data/ecoli.json.gz")))]
    gp = [d["smart"] for d in pickled()]
    return eco + gp


def parse_keep_h(smi):
    from rdkit import Chem

    m = Chem.MolFromSmiles(smi, sanitize=False)
    if m is None:
        return None
    try:
        Chem.SanitizeMol(m)
    except Exception:
        return None
    return m


def wellformed(r):
    if r.count(">>") != 1:
        return False
    a, b = r.split(">>")
    for s in (a, b):
        if not s or s.startswith(".") or s.endswith(".") or ".." in s:
            return False
    ma, mb = parse_keep_h(a), parse_keep_h(b)
    if ma is None or mb is None:
        return False
    ka = [x.GetAtomMapNum() for x in ma.GetAtoms()]
    kb = [x.GetAtomMapNum() for x in mb.GetAtoms()]
    if 0 in ka or 0 in kb:
        return False
    if len(set(ka)) != len(ka) or len(set(kb)) != len(kb):
        return False
    if set(ka) != set(kb):
        return False
    # element of every mapped atom must agree on both sides (balanced, same atoms)
    ea = {x.GetAtomMapNum(): x.GetSymbol() for x in ma.GetAtoms()}
    eb = {x.GetAtomMapNum(): x.GetSymbol() for x in mb.GetAtoms()}
    return ea == eb


@lru_cache(maxsize=None)
def wellformed_reactions():
    out = []
    for i, r in enumerate(reactions()):
        if wellformed(r):
            out.append((i, r))
    return out


def unmapped(smi, keep_h=True):
    """canonical non-isomeric SMILES without atom maps (explicit mapped H kept as atoms)."""
    from rdkit import Chem

    m = parse_keep_h(smi) if keep_h else Chem.MolFromSmiles(smi)
    if m is None:
        return None
    for a in m.GetAtoms():
        a.SetAtomMapNum(0)
    try:
        m2 = Chem.RemoveHs(m)
        return Chem.MolToSmiles(m2, isomericSmiles=False)
    except Exception:
        return Chem.MolToSmiles(m, isomericSmiles=False)


def renumber(r, rng):
    maps = sorted({int(m) for m in re.findall(r":(\d+)\]", r)})
    perm = maps[:]
    rng.shuffle(perm)
    d = dict(zip(maps, perm))
    return re.sub(r":(\d+)\]", lambda m: ":%d]" % d[int(m.group(1))], r)


def rewrite_side(s, rng):
    """re-root every fragment with a random atom order and shuffle fragments; returns None if
    the rewritten side is not the same chemistry (sanity check against writer artefacts)."""
    from rdkit import Chem

    frs = s.split(".")
    rng.shuffle(frs)
    out = []
    for f in frs:
        m = Chem.MolFromSmiles(f, sanitize=False)
        if m is None:
            return None
        # seed RDKit's random writer from our rng for reproducibility
        try:
            t = Chem.MolToRandomSmilesVect(m, 1, randomSeed=rng.randrange(1, 2**31 - 1))[0]
        except Exception:
            t = Chem.MolToSmiles(m, doRandom=True, canonical=False)
        out.append(t)
    new = ".".join(out)
    if unmapped(new) != unmapped(s) or unmapped(new) is None:
        return None
    m1, m2 = parse_keep_h(new), parse_keep_h(s)
    if m1 is None or m2 is None:
        return None
    if sorted(a.GetAtomMapNum() for a in m1.GetAtoms()) != sorted(a.GetAtomMapNum() for a in m2.GetAtoms()):
        return None
    # per-map atom invariants must be unchanged (element, total H, charge, aromaticity)
    inv = lambda m: {a.GetAtomMapNum(): (a.GetSymbol(), a.GetTotalNumHs(), a.GetFormalCharge(), a.GetIsAromatic()) for a in m.GetAtoms()}
    if inv(m1) != inv(m2):
        return None
    return new


def rewrite(r, rng):
    a, b = r.split(">>")
    a2, b2 = rewrite_side(a, rng), rewrite_side(b, rng)
    if a2 is None or b2 is None:
        return None
    return a2 + ">>" + b2


def reverse(r):
    a, b = r.split(">>")
    return b + ">>" + a


def shuffle_fragments(r, rng):
    a, b = r.split(">>")
    fa, fb = a.split("."), b.split(".")
    rng.shuffle(fa)
    rng.shuffle(fb)
    return ".".join(fa) + ">>" + ".".join(fb)


def variants(r, rng, k=3):
    """list of (kind, reaction) chemistry-preserving variants."""
    out = []
    for _ in range(k):
        out.append(("renumber", renumber(r, rng)))
    w = rewrite(r, rng)
    if w:
        out.append(("rewrite", w))
        out.append(("rewrite+renumber", renumber(w, rng)))
    out.append(("fragments", shuffle_fragments(r, rng)))
    return out


@lru_cache(maxsize=None)
def molecules():
    """distinct molecules (unmapped canonical SMILES) occurring in the corpus."""
    from rdkit import Chem

    seen = {}
    for _, r in wellformed_reactions():
        for side in r.split(">>"):
            for f in side.split("."):
                m = Chem.MolFromSmiles(f)
                if m is None:
                    continue
                for a in m.GetAtoms():
                    a.SetAtomMapNum(0)
                s = Chem.MolToSmiles(m, isomericSmiles=False)
                seen.setdefault(s, None)
    return sorted(seen)


VENDORED_MOLECULES = [
    "CCO", "CC(=O)O", "CC(=O)[O-]", "C[NH3+]", "c1ccccc1", "c1ccncc1", "c1ccoc1", "c1cc[nH]c1", "c1ccsc1",
    "c1ccc2ccccc2c1", "c1ccc2[nH]ccc2c1", "O=C=O", "C#N", "C#C", "[Na+]", "[Cl-]", "[OH-]", "[H][H]", "O", "N",
    "CS(=O)(=O)O", "OP(=O)(O)O", "O=P([O-])([O-])[O-]", "CC(C)(C)C", "C1CC1", "C1CCCCC1", "C1CCOC1", "C=CC=C",
    "CC(=O)N", "NC(=O)N", "c1ccc(cc1)[N+](=O)[O-]", "CC[N+](C)(C)C", "C[S+](C)C", "O=C1CCCCC1", "OC(=O)c1ccccc1",
    "Nc1ccccc1", "Oc1ccccc1", "Clc1ccccc1", "Brc1ccccc1", "FC(F)(F)c1ccccc1", "CSC", "CS", "CC=O", "C=O", "CO",
    "n1ccccc1C", "c1cnc2ccccc2n1", "C1=CC=CC1", "c1ccc2cc3ccccc3cc2c1",
    "N#Cc1ccccc1", "CC(C)=O", "OCC(O)CO", "NCC(=O)O", "[NH4+]", "[O-][N+](=O)c1ccccc1", "B(O)(O)c1ccccc1",
    "C[Si](C)(C)C", "CI", "CCl", "CBr", "CF",
]


# --------------------------------------------------------------------------- generated explicit-hydrogen reactions
# Reaction schemas written with explicit mapped hydrogens on the changing bonds, a wide element alphabet
# (two-letter symbols incl. those starting with H, C, N, S ...), and spectator species on both sides.
_R_GROUPS = ["[CH3:{a}]", "[CH2:{a}][CH3:{b}]", "[SiH3:{a}]", "[Se:{a}][CH3:{b}]", "[SiH:{a}]([CH3:{b}])[CH3:{c}]", "[GeH3:{a}]", "[CH2:{a}][Hg:{b}][Cl:{c}]"]
_METALS = ["[Hg:{m}][Cl:{x}]", "[Zn:{m}][Cl:{x}]", "[Mg:{m}][Br:{x}]", "[Cd:{m}][I:{x}]", "[Sn:{m}]([CH3:{x}])([CH3:{y}])[CH3:{z}]",
           "[Hg:{m}][O:{x}][C:{y}]([CH3:{z}])=[O:{w}]", "[Cu:{m}]", "[Li:{m}]"]
_ACIDS = ["[Cl:{q}]", "[Br:{q}]", "[O:{q}][H:{r}]", "[O:{q}][C:{r}]([CH3:{s}])=[O:{t}]", "[F:{q}]", "[S:{q}][CH3:{r}]", "[O:{q}][CH3:{r}]"]
_SPECTATORS = ["[H:{a}][H:{b}]", "[OH2:{a}]", "[O:{a}]([H:{b}])[H:{c}]", "[Na+:{a}]", "[Cl-:{a}]", "[He:{a}]", "[Hg:{a}]", "[Hf:{a}]",
               "[Ho+3:{a}]", "[Hg+2:{a}]", "[Cl:{a}][Hg:{b}][Cl:{c}]", "[NH3:{a}]", "[N:{a}]([H:{b}])([H:{c}])[H:{d}]", "[Ne:{a}]",
               "[CH4:{a}]", "[C:{a}]([H:{b}])([H:{c}])([H:{d}])[H:{e}]", "[Cl:{a}][H:{b}]", "[K+:{a}].[OH-:{b}]", "[K+:{a}].[O-:{b}][H:{c}]", "[H+:{a}]", "[H-:{a}]", "[H+:{a}].[Cl-:{b}]",
               "[*:{a}][H:{b}]", "[*:{a}]([H:{b}])[CH3:{c}]", "[*:{a}][CH2:{b}][H:{c}]", "[*:{a}][OH:{b}]"]


class _Maps:
    def __init__(self):
        self.n = 0

    def fill(self, text):
        import re, string
        names = sorted(set(re.findall(r"\{(\w)\}", text)))
        m = {}
        for k in names:
            self.n += 1
            m[k] = self.n
        return text.format(**m), m


def explicit_h_reaction(rng):
    """One balanced, fully mapped reaction with explicit hydrogens on changing bonds; returns (rsmi, tags)."""
    import re
    M = _Maps()
    kind = rng.choice(["protonolysis", "hydrogenation", "substitution", "hydrometalation", "exchange"])
    tags = {kind}

    def part(tmpl):
        t, m = M.fill(tmpl)
        return t, m

    def head(frag):  # first atom token and the rest
        mm = re.match(r"(\[[^\]]+\])(.*)", frag)
        return mm.group(1), mm.group(2)

    if kind == "protonolysis":  # R-M + H-A >> R-H + M-A
        R_, _ = part(rng.choice(_R_GROUPS)); Mt, _ = part(rng.choice(_METALS)); A, _ = part(rng.choice(_ACIDS))
        M.n += 1; h = M.n
        r0, rrest = head(R_); m0, mrest = head(Mt); a0, arest = head(A)
        # write R as  r0(rest)  so extra bonds attach to r0
        lhs = [f"{r0}({m0}{mrest}){rrest}" if rrest else f"{r0}{m0}{mrest}", f"[H:{h}]{a0}{arest}"]
        rhs = [f"{r0}([H:{h}]){rrest}" if rrest else f"{r0}[H:{h}]", f"{a0}({m0}{mrest}){arest}" if arest else f"{a0}{m0}{mrest}"]
    elif kind == "hydrogenation":  # H-H + X=Y >> H-X-Y-H
        M.n += 4; a, b, x, y = M.n - 3, M.n - 2, M.n - 1, M.n
        pair = rng.choice([("[CH2:%d]", "[CH2:%d]"), ("[CH2:%d]", "[O:%d]"), ("[CH2:%d]", "[NH:%d]"), ("[SiH2:%d]", "[CH2:%d]")])
        X, Y = pair[0] % x, pair[1] % y
        lhs = [f"[H:{a}][H:{b}]", f"{X}={Y}"]
        rhs = [f"[H:{a}]{X}{Y}[H:{b}]"]
    elif kind == "substitution":  # R-O-H + X-R' >> R-O-R' + X-H
        R_, _ = part(rng.choice(_R_GROUPS)); R2, _ = part(rng.choice(_R_GROUPS))
        M.n += 3; o, h, x = M.n - 2, M.n - 1, M.n
        hal = rng.choice(["Cl", "Br", "I"]); chal = rng.choice(["O", "S", "Se", "N"])
        r0, rrest = head(R_); s0, srest = head(R2)
        nh = "" if chal != "N" else f"([CH3:{M.n + 1}])"
        if chal == "N":
            M.n += 1
        lhs = [f"[{chal}:{o}]([H:{h}]){nh}{r0}{rrest}", f"[{hal}:{x}]{s0}{srest}"]
        rhs = [f"[{chal}:{o}]({s0}{srest}){nh}{r0}{rrest}", f"[{hal}:{x}][H:{h}]"]
    elif kind == "hydrometalation":  # M-H + C=C >> M-C-C-H
        M.n += 4; m, h, x, y = M.n - 3, M.n - 2, M.n - 1, M.n
        metal = rng.choice(["[Hg:%d]", "[SnH2:%d]", "[Hf:%d]", "[GeH2:%d]", "[Zr:%d]", "[Cu:%d]", "[SiH2:%d]"]) % m
        lig = ""
        if rng.random() < 0.5:
            M.n += 1
            lig = f"([Cl:{M.n}])"
        lhs = [f"{metal}{lig}[H:{h}]", f"[CH2:{x}]=[CH2:{y}]"]
        rhs = [f"{metal}{lig}[CH2:{x}][CH2:{y}][H:{h}]"]
    else:  # exchange  A-H + B-D >> A-D + B-H  over heteroatoms (D = deuterium-free: a second hydrogen)
        M.n += 4; a, h1, b, h2 = M.n - 3, M.n - 2, M.n - 1, M.n
        A = rng.choice(["[O:%d]", "[S:%d]", "[Se:%d]"]) % a
        B = rng.choice(["[Cl:%d]", "[Br:%d]", "[F:%d]"]) % b
        M.n += 1; c = M.n
        lhs = [f"[CH3:{c}]{A}[H:{h1}]", f"{B}[H:{h2}]"]
        rhs = [f"[CH3:{c}]{A}[H:{h2}]", f"{B}[H:{h1}]"]
    nspec = rng.choice([0, 0, 1, 1, 2, 3])
    for _ in range(nspec):
        s, _m = part(rng.choice(_SPECTATORS))
        tags.add("spectator")
        if "[H:" in s and re.fullmatch(r"\[H:\d+\]\[H:\d+\]", s):
            tags.add("spectator_h2")
        elif "[H:" in s:
            tags.add("spectator_explicit_h")
        if "[H+:" in s or "[H-:" in s:
            tags.add("spectator_bare_h")
        if "[*:" in s:
            tags.add("spectator_wildcard_atom")
        lhs.append(s); rhs.append(s)
    txt = ".".join(lhs) + ">>" + ".".join(rhs)
    for el in ("Hg", "Hf", "Ho", "He"):
        if "[" + el in txt:
            tags.add("element_starting_with_H")
    return txt, tags


# --------------------------------------------------------------------------- look-alike spectators
# reactions whose reactant side contains atoms that agree on element, charge, H count and degree but differ
# in the bond orders around them (cumulated double bonds vs single+triple, sulfoxide vs sulfone ...)
_LOOKALIKE_CORES = [
    "[CH3:1][NH2:2].[CH3:3][N:4]=[C:5]=[S:6]>>[CH3:1][NH:2][C:5](=[S:6])[NH:4][CH3:3]",
    "[CH3:1][OH:2].[CH3:3][C:4](=[O:5])[Cl:6]>>[CH3:1][O:2][C:4](=[O:5])[CH3:3].[ClH:6]",
    "[CH3:1][CH2:2][Br:3].[N-:4]=[N+:5]=[N-:6]>>[CH3:1][CH2:2][N:4]=[N+:5]=[N-:6].[Br-:3]",
    "[CH3:1][C:2]#[N:3].[OH2:4]>>[CH3:1][C:2](=[O:4])[NH2:3]",
    "[CH3:1][CH:2]=[C:3]=[CH2:4].[BrH:5]>>[CH3:1][CH:2]=[C:3]([Br:5])[CH3:4]",
]
_LOOKALIKE_POOL = ["CSC#N", "CN=C=S", "CCN=C=NC", "NC#N", "CNC#N", "C=C=CC", "CCC#C", "CN=C=O", "COC#N", "CC(=O)C#N", "S=C=O",
                   "CC=C=O", "C[N+]#[C-]", "CN=[N+]=[N-]", "CS(C)=O", "CCS(=O)(=O)C", "CC#CCC", "CC=C=CCC", "CC#N", "C=C=N", "CC=C=NC",
                   "CC#CN(C)C", "CSC=C=S", "CSC#CS", "N=C=NC", "CN(C)C#N", "OC#N", "N=C=O",
                   # rings with alternating bond orders: atoms with identical neighbour sets reached by exchanged bond orders
                   "FC1=CC(Cl)=C1", "CC1=CC(N)=C1", "FC1=CC=CC(Cl)=CC=C1", "ClC1=CC(Br)=C1", "C1=CC(C)=C1O"]
_LOOKALIKE_CORES += [
    "[F:1][C:2]1=[CH:3][C:4]([Cl:5])=[CH:6]1.[I:7][Br:8]>>[F:1][C:2]1([I:7])[CH:3]([Br:8])[C:4]([Cl:5])=[CH:6]1",
    "[CH3:1][C:2]1=[CH:3][C:4]([NH2:5])=[CH:6]1.[Cl:7][Cl:8]>>[CH3:1][C:2]1([Cl:7])[CH:3]([Cl:8])[C:4]([NH2:5])=[CH:6]1",
]


def lookalike_reaction(rng):
    from rdkit import Chem
    core = rng.choice(_LOOKALIKE_CORES)
    n = max(int(m) for m in re.findall(r":(\d+)\]", core))
    a, b = core.split(">>")
    for smi in rng.sample(_LOOKALIKE_POOL, rng.randint(2, 4)):
        m = Chem.MolFromSmiles(smi)
        for at in m.GetAtoms():
            n += 1
            at.SetAtomMapNum(n)
        t = Chem.MolToSmiles(m, canonical=False)
        a += "." + t
        b += "." + t
    return a + ">>" + b
