"""Reaction-network workloads shared by C15–C20: a plain-Python network model
(list of reactions) with exhaustive and random generators.  Nothing here imports
synkit except `build_hg`, which feeds the model into the real store."""
from __future__ import annotations

import itertools
from typing import Dict, List, Tuple

Rxn = Tuple[str, Tuple[Tuple[str, int], ...], Tuple[Tuple[str, int], ...]]
# (rule, reactants, products) with sides as sorted tuples of (species, coeff>0)


def side(d: Dict[str, int]):
    return tuple(sorted((s, int(c)) for s, c in d.items() if c > 0))


def rxn(reactants: Dict[str, int], products: Dict[str, int], rule="r") -> Rxn:
    return (rule, side(reactants), side(products))


def fmt_side(sd) -> str:
    if not sd:
        return "∅"
    return " + ".join(s if c == 1 else f"{c}{s}" for s, c in sd)


def fmt_rxn(r: Rxn) -> str:
    return f"{fmt_side(r[1])} >> {fmt_side(r[2])}"


def fmt_net(net: List[Rxn]) -> List[str]:
    return [fmt_rxn(r) + (f" | rule={r[0]}" if r[0] != "r" else "") for r in net]


def species_of(net: List[Rxn]) -> List[str]:
    sp = set()
    for _, a, b in net:
        sp.update(s for s, _ in a)
        sp.update(s for s, _ in b)
    return sorted(sp)


def all_sides(species, coeffs):
    out = []
    for cs in itertools.product(coeffs, repeat=len(species)):
        out.append(tuple((s, c) for s, c in zip(species, cs) if c > 0))
    return out


def all_reactions(species=("A", "B", "C"), coeffs=(0, 1, 2), allow_empty_side=True,
                  allow_trivial=True):
    sides = all_sides(species, coeffs)
    out = []
    for a in sides:
        for b in sides:
            if not a and not b:
                continue
            if not allow_empty_side and (not a or not b):
                continue
            if not allow_trivial and a == b:
                continue
            out.append(("r", a, b))
    return out


def enum_networks(species=("A", "B", "C"), coeffs=(0, 1, 2), max_rxn=2, **kw):
    """all multisets of ≤ max_rxn reactions (order = generation order)."""
    rx = all_reactions(species, coeffs, **kw)
    for k in range(1, max_rxn + 1):
        for combo in itertools.combinations_with_replacement(rx, k):
            yield list(combo)


def random_network(rng, n_species=5, n_rxn=4, max_coeff=3, rules=("r",),
                   p_empty=0.08, p_reverse=0.25, p_catalyst=0.15, p_dup=0.08,
                   max_side=3):
    names = [chr(ord("A") + i) for i in range(n_species)]
    net: List[Rxn] = []
    while len(net) < n_rxn:
        if net and rng.random() < p_reverse:
            r0 = rng.choice(net)
            net.append((rng.choice(rules), r0[2], r0[1]))
            continue
        if net and rng.random() < p_dup:
            r0 = rng.choice(net)
            net.append((rng.choice(rules), r0[1], r0[2]))
            continue

        def mk():
            if rng.random() < p_empty:
                return {}
            k = rng.randint(1, min(max_side, n_species))
            return {s: rng.randint(1, max_coeff) for s in rng.sample(names, k)}

        a, b = mk(), mk()
        if rng.random() < p_catalyst and a:
            c = rng.choice(sorted(a))
            b = dict(b)
            b[c] = rng.randint(1, max_coeff)
        if not a and not b:
            continue
        net.append(rxn(a, b, rng.choice(rules)))
    return net


TEXTBOOK = {
    "rev_A+B<->C": [rxn({"A": 1, "B": 1}, {"C": 1}), rxn({"C": 1}, {"A": 1, "B": 1})],
    "chain": [rxn({"A": 1}, {"B": 1}), rxn({"B": 1}, {"C": 1})],
    "cycle3": [rxn({"A": 1}, {"B": 1}), rxn({"B": 1}, {"C": 1}), rxn({"C": 1}, {"A": 1})],
    "open": [rxn({}, {"A": 1}), rxn({"A": 1}, {"B": 1}), rxn({"B": 1}, {})],
    "edelstein": [
        rxn({"A": 1}, {"A": 2}), rxn({"A": 2}, {"A": 1}),
        rxn({"A": 1, "B": 1}, {"C": 1}), rxn({"C": 1}, {"A": 1, "B": 1}),
        rxn({"C": 1}, {"B": 1}), rxn({"B": 1}, {"C": 1}),
    ],
    "futile": [
        rxn({"S": 1, "E": 1}, {"ES": 1}), rxn({"ES": 1}, {"S": 1, "E": 1}),
        rxn({"ES": 1}, {"P": 1, "E": 1}),
        rxn({"P": 1, "F": 1}, {"PF": 1}), rxn({"PF": 1}, {"P": 1, "F": 1}),
        rxn({"PF": 1}, {"S": 1, "F": 1}),
    ],
    "single_CB_FA": [rxn({"C": 1, "B": 1}, {"F": 1, "A": 1})],
    "summary_chain": [
        rxn({"A": 2, "B": 1}, {"C": 1}), rxn({"C": 1, "D": 1}, {"E": 1}),
        rxn({"E": 1, "F": 1}, {"D": 1, "G": 1}),
    ],
    "autocat": [rxn({"A": 1, "B": 1}, {"B": 2}), rxn({"B": 1}, {"A": 1})],
    "sinks": [rxn({"B": 3}, {}), rxn({"B": 1}, {})],
}


def build_hg(net: List[Rxn], ids=None, order=None):
    """feed a model network into the real CRNHyperGraph (ids: optional list)."""
    from synkit.CRN.Hypergraph.hypergraph import CRNHyperGraph

    H = CRNHyperGraph()
    idx = list(range(len(net))) if order is None else list(order)
    for i in idx:
        rule, a, b = net[i]
        H.add_rxn(dict(a), dict(b), rule=rule, edge_id=None if ids is None else ids[i])
    return H


def rename(net: List[Rxn], mapping: Dict[str, str]) -> List[Rxn]:
    return [
        (r, side({mapping[s]: c for s, c in a}), side({mapping[s]: c for s, c in b}))
        for r, a, b in net
    ]


def exact_S(net: List[Rxn], species=None):
    """integer stoichiometric matrix rows=sorted species, cols=reactions in order."""
    sp = species if species is not None else species_of(net)
    ix = {s: i for i, s in enumerate(sp)}
    S = [[0] * len(net) for _ in sp]
    for j, (_, a, b) in enumerate(net):
        for s, c in a:
            S[ix[s]][j] -= c
        for s, c in b:
            S[ix[s]][j] += c
    return sp, S
