"""Labelled-graph workloads for C06–C08, C11–C13: isomorphism-class representatives of small
labelled graphs (orderly generation + brute-force canonical test), random molecule-like graphs,
symmetric families, and scrambling (relabel + insertion order + edge orientation)."""
from __future__ import annotations

import itertools
from functools import lru_cache

import networkx as nx

FULL_NODE = [("C", 0), ("C", 1), ("N", 0), ("N", 1)]  # (element, hcount)
RED_NODE = [("C", 0), ("N", 0)]
ORDERS2 = [1, 2]


@lru_cache(maxsize=None)
def _classes(n, node_labels, edge_labels, max_edges):
    node_labels = list(node_labels)
    k = len(edge_labels)
    pairs = [(i, j) for i in range(n) for j in range(i + 1, n)]
    pidx = {p: t for t, p in enumerate(pairs)}
    out = []
    for labs in itertools.combinations_with_replacement(range(len(node_labels)), n):
        # stabiliser of the label sequence
        stab = []
        for perm in itertools.permutations(range(n)):
            if all(labs[perm[i]] == labs[i] for i in range(n)):
                stab.append(tuple(pidx[tuple(sorted((perm[i], perm[j])))] for (i, j) in pairs))
        for vec in itertools.product(range(k + 1), repeat=len(pairs)):
            if max_edges is not None and sum(1 for x in vec if x) > max_edges:
                continue
            canon = True
            for mp in stab:
                img = [0] * len(pairs)
                for t, x in enumerate(vec):
                    img[mp[t]] = x
                if tuple(img) > vec:
                    canon = False
                    break
            if canon:
                out.append((tuple(node_labels[l] for l in labs),
                            tuple((p, edge_labels[x - 1]) for p, x in zip(pairs, vec) if x)))
    return out


def classes(n, node_labels=FULL_NODE, edge_labels=ORDERS2, max_edges=None):
    """one representative per isomorphism class of labelled graphs on n nodes."""
    if n == 0:
        return [((), ())]
    return _classes(n, tuple(node_labels), tuple(edge_labels), max_edges)


def to_nx(rep, charge=None):
    labs, edges = rep
    G = nx.Graph()
    for i, (el, hc) in enumerate(labs):
        G.add_node(i + 1, element=el, hcount=hc, charge=0 if charge is None else charge[i], aromatic=False,
                   atom_map=i + 1, neighbors=[])
    for (i, j), o in edges:
        G.add_edge(i + 1, j + 1, order=o, standard_order=0.0)
    return G


def scramble(G, rng, ids=None):
    """same abstract graph: random relabelling, random node insertion order, random edge order
    and orientation.  Returns (G2, mapping old->new)."""
    nodes = list(G.nodes)
    if ids is None:
        pool = rng.sample(range(1, 3 * len(nodes) + 5), len(nodes)) if rng.random() < 0.5 else list(range(1, len(nodes) + 1))
        rng.shuffle(pool)
        ids = pool
    mp = dict(zip(nodes, ids))
    H = G.__class__()
    order = nodes[:]
    rng.shuffle(order)
    for v in order:
        d = dict(G.nodes[v])
        if "atom_map" in d:
            d["atom_map"] = mp[v] if isinstance(mp[v], int) else d["atom_map"]  # uncovered attribute follows the numbering
        H.add_node(mp[v], **d)
    es = list(G.edges(data=True))
    rng.shuffle(es)
    for u, v, d in es:
        if rng.random() < 0.5 and not G.is_directed():
            u, v = v, u
        H.add_edge(mp[u], mp[v], **dict(d))
    return H, mp


def permuted(G, perm_ids):
    """relabel nodes (in sorted order) to perm_ids, inserting nodes in the order of the new ids."""
    nodes = sorted(G.nodes)
    mp = dict(zip(nodes, perm_ids))
    H = nx.Graph()
    for v in sorted(nodes, key=lambda x: mp[x]):
        d = dict(G.nodes[v])
        if "atom_map" in d:
            d["atom_map"] = mp[v]  # uncovered attribute follows the numbering, as in real data
        H.add_node(mp[v], **d)
    for u, v, d in G.edges(data=True):
        H.add_edge(mp[u], mp[v], **dict(d))
    return H


def random_mol(rng, n, elements=("C", "C", "C", "N", "O"), orders=(1, 1, 1, 2), p_ring=0.25,
               hmax=2, p_charge=0.0, components=1, aromatic_orders=False):
    """random molecule-like graph: spanning tree(s) + ring closures."""
    G = nx.Graph()
    for i in range(1, n + 1):
        G.add_node(i, element=rng.choice(elements), hcount=rng.randint(0, hmax),
                   charge=(rng.choice([-1, 1]) if rng.random() < p_charge else 0), aromatic=False,
                   atom_map=i, neighbors=[])
    comp_of = {i: rng.randrange(components) for i in range(1, n + 1)}
    for c in range(components):
        members = [i for i in comp_of if comp_of[i] == c]
        for t in range(1, len(members)):
            u = members[t]
            v = members[rng.randrange(t)]
            G.add_edge(u, v, order=rng.choice(orders), standard_order=0.0)
        for _ in range(len(members)):
            if rng.random() < p_ring and len(members) >= 3:
                u, v = rng.sample(members, 2)
                if not G.has_edge(u, v):
                    G.add_edge(u, v, order=rng.choice(orders), standard_order=0.0)
    return G


def planted_pattern(rng, H, k):
    """connected-ish sub-pattern of H on k nodes with a random subset of the induced edges kept
    (always a monomorphic image); hcount lowered at random."""
    nodes = list(H.nodes)
    if not nodes:
        return nx.Graph()
    start = rng.choice(nodes)
    chosen = [start]
    frontier = set(H[start])
    while len(chosen) < k and (frontier or len(chosen) < len(nodes)):
        if frontier and rng.random() < 0.85:
            v = rng.choice(sorted(frontier))
        else:
            rest = [x for x in nodes if x not in chosen]
            if not rest:
                break
            v = rng.choice(rest)
        chosen.append(v)
        frontier |= set(H[v])
        frontier -= set(chosen)
    P = nx.Graph()
    for v in chosen:
        d = dict(H.nodes[v])
        d["hcount"] = rng.randint(0, d.get("hcount", 0))
        P.add_node(v, **d)
    for u, v, d in H.subgraph(chosen).edges(data=True):
        if rng.random() < 0.8:
            P.add_edge(u, v, **dict(d))
    return P


def symmetric_families():
    fam = {}
    for n in range(3, 9):
        fam[f"C{n}"] = nx.cycle_graph(n)
    fam["K23"] = nx.complete_bipartite_graph(2, 3)
    fam["K33"] = nx.complete_bipartite_graph(3, 3)
    fam["star5"] = nx.star_graph(5)
    fam["path5"] = nx.path_graph(5)
    fam["cube"] = nx.hypercube_graph(3)
    fam["2xC3"] = nx.disjoint_union(nx.cycle_graph(3), nx.cycle_graph(3))
    fam["C3+C4"] = nx.disjoint_union(nx.cycle_graph(3), nx.cycle_graph(4))
    fam["C3+C5"] = nx.disjoint_union(nx.cycle_graph(3), nx.cycle_graph(5))
    fam["C4+C5"] = nx.disjoint_union(nx.cycle_graph(4), nx.cycle_graph(5))
    fam["C6+2xC3"] = nx.disjoint_union(nx.cycle_graph(6), nx.disjoint_union(nx.cycle_graph(3), nx.cycle_graph(3)))
    fam["prism+K33"] = nx.disjoint_union(nx.circular_ladder_graph(3), nx.complete_bipartite_graph(3, 3))
    fam["co(C3+C4)"] = nx.complement(nx.disjoint_union(nx.cycle_graph(3), nx.cycle_graph(4)))
    fam["K4"] = nx.complete_graph(4)
    fam["petersen"] = nx.petersen_graph()
    fam["prism"] = nx.circular_ladder_graph(3)
    out = {}
    for name, g in fam.items():
        g = nx.convert_node_labels_to_integers(g, first_label=1)
        G = nx.Graph()
        for v in g.nodes:
            G.add_node(v, element="C", hcount=0, charge=0, aromatic=False, atom_map=v, neighbors=[])
        for u, v in g.edges:
            G.add_edge(u, v, order=1, standard_order=0.0)
        out[name] = G
    # alternating bond orders on rings (fewer automorphisms)
    for n in (4, 6):
        G = out[f"C{n}"].copy()
        for t, (u, v) in enumerate(sorted(G.edges)):
            pass
        for i in range(1, n + 1):
            j = i % n + 1
            G[i][j]["order"] = 1 if i % 2 else 2
        out[f"C{n}_alt"] = G
    return out


def gdigest(G):
    """full structural snapshot used to detect input mutation."""
    return (tuple((n, tuple(sorted((k, repr(v)) for k, v in d.items()))) for n, d in G.nodes(data=True)),
            tuple((u, v, tuple(sorted((k, repr(x)) for k, x in d.items()))) for u, v, d in G.edges(data=True)))


def describe(G):
    return {"nodes": [[n, d.get("element"), d.get("hcount"), d.get("charge"), bool(d.get("aromatic", False))]
                      for n, d in G.nodes(data=True)],
            "edges": [[u, v, d.get("order"), d.get("standard_order", 0.0)] for u, v, d in G.edges(data=True)]}


def from_desc(desc, directed=False):
    G = nx.Graph()
    for row in desc["nodes"]:
        n, el, hc, ch = row[:4]
        G.add_node(n, element=el, hcount=hc, charge=ch, aromatic=bool(row[4]) if len(row) > 4 else False,
                   atom_map=n, neighbors=[])
        for k in ("element", "hcount", "charge"):
            if G.nodes[n][k] is None:   # attribute absent in the described graph
                del G.nodes[n][k]
    for row in desc["edges"]:
        u, v, o = row[:3]
        if isinstance(o, list):
            o = tuple(o)
        G.add_edge(u, v, order=o, standard_order=row[3] if len(row) > 3 else 0.0)
        if o is None:
            del G.edges[u, v]["order"]
    return G
