#!/bin/bash
# offline setup: contracts + exact-arithmetic solver beside the repo's interpreter
here="$(cd "$(dirname "${BASH_SOURCE[0]}")" && pwd)"
cd "$here"
if [ -d .deps/icontract ] && [ -d .deps/z3 ]; then echo "deps present"; exit 0; fi
PIP_NO_INDEX=1 /venv/bin/pip install --quiet --no-index --find-links /opt/veriftools/wheels \
    --target "$here/.deps" icontract z3-solver || exit 1
echo "deps installed"
